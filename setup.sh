#!/bin/bash
# Offline setup: nothing is compiled or downloaded; verify interpreter + import path, create output dirs.
cd "$(dirname "$0")" || exit 2
mkdir -p evidence replays
PYTHONPATH=/repo:/verif PYTHONDONTWRITEBYTECODE=1 /venv/bin/python - <<'PY'
import sys, os, lark
assert sys.version_info[:2] >= (3, 12), sys.version
assert os.path.realpath(lark.__file__).startswith('/repo/'), lark.__file__
import lmc.cli
print("setup ok: python", sys.version.split()[0], "lark", lark.__version__, "from", lark.__file__)
PY
