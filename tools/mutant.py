#!/venv/bin/python
"""Apply one recorded mutation (mutations_prescreen.json by name, or a patch file) to a scratch copy of /repo under
/dev/shm, run the given checks against the copy (LMC_REPO) with output in the scratch dir, report, delete the copy.
usage: tools/mutant.py <name|patch.diff> <ID>[,<ID>...] [--tier quick] [--suite]
"""
import json, os, shutil, subprocess, sys, tempfile

def main():
    name, ids = sys.argv[1], sys.argv[2].split(',')
    tier = 'quick'
    if '--tier' in sys.argv:
        tier = sys.argv[sys.argv.index('--tier') + 1]
    d = tempfile.mkdtemp(prefix='mut_', dir='/dev/shm')
    try:
        repo = os.path.join(d, 'repo')
        subprocess.check_call(['rsync', '-a', '--exclude', '.git', '--exclude', '__pycache__', '/repo/', repo + '/'])
        if os.path.exists(name):
            subprocess.check_call(['patch', '-p1', '-s', '-d', repo, '-i', os.path.abspath(name)])
        else:
            muts = {m['name']: m for m in json.load(open('/verif/mutations_prescreen.json'))}
            muts.update({m['name']: m for m in json.load(open('/verif/fix_candidates.json')) if 'old' in m})
            m = muts[name]
            p = os.path.join(repo, m['file'])
            s = open(p).read()
            assert s.count(m['old']) >= 1, 'old text not found'
            open(p, 'w').write(s.replace(m['old'], m['new'], 1))
        env = dict(os.environ, LMC_REPO=repo, LMC_OUT=os.path.join(d, 'out'))
        if '--suite' in sys.argv:
            r = subprocess.run(['/venv/bin/python', '-m', 'pytest', '-q', '-p', 'no:cacheprovider', '-x', '-n', '8', 'tests'],
                               cwd=repo, env=dict(env, PYTHONPATH=repo), capture_output=True, text=True)
            print('SUITE:', r.stdout.strip().splitlines()[-1] if r.stdout.strip() else r.stderr[-300:])
        for pid in ids:
            r = subprocess.run(['/verif/check', pid, '--tier', tier], env=env, capture_output=True, text=True)
            lines = [l for l in r.stdout.splitlines() if l.startswith(('VIOLATION', 'HARNESS', '  kind=', pid))]
            print('%s on %s: exit=%d' % (pid, name, r.returncode))
            for l in lines[:12]:
                print('   ', l[:300])
            if r.returncode not in (0, 1):
                print(r.stdout[-1500:], r.stderr[-1500:])
            # show the smallest replay
            rd = os.path.join(d, 'out', 'replays', pid)
            if os.path.isdir(rd) and '--show' in sys.argv:
                for f in sorted(os.listdir(rd)):
                    v = json.load(open(os.path.join(rd, f)))
                    print('   >>', v['kind'], '|', json.dumps(v['case'])[:400], '| EXPECTED', json.dumps(v['expected'])[:300], '| OBSERVED', json.dumps(v['observed'])[:300])
    finally:
        shutil.rmtree(d, ignore_errors=True)

if __name__ == '__main__':
    main()
