#!/venv/bin/python
"""Regenerates /verif/MANIFEST.json from the table below (kept in one place so it is always valid)."""
import json, os, sys
BASE = "cd /repo && /venv/bin/python -m pytest -ra -q -p no:cacheprovider --timeout=900 --continue-on-collection-errors"
TRUST = ("CPython 3.12 (re, pickle, sys.monitoring, signal); the reference models under /verif/lmc (cross-validated, see DESIGN.md 2.5); "
         "bounds as recorded in the evidence file (coverage.bounds)")
CHECKS = {
 'C01': ('exploration', '4 C01', 'Every grammar of the bounded families x every Earley lexer x every input up to the length bound is executed on the real parser and compared with an independent fix-point recogniser; a pass is a coverage statement for those boxes (small-scope), not a proof for all grammars.',
         'bounded exhaustive enumeration of (grammar, lexer, input) against a reference recogniser'),
 'C04': ('exploration', '4 C04', 'Every grammar of the bounded BNF families (helper spelled a/_a/?a, long alternatives, colliding terminals) x lexer x input is parsed with ambiguity=explicit and the collapsed tree set is compared with the set of shaped derivations from an independent fix-point enumerator; cyclic grammars: termination and soundness of every tree.',
         'bounded exhaustive enumeration of (grammar, lexer, input) against a reference derivation enumerator'),
 'C05': ('exploration', '4 C05', 'Every acyclic grammar of the bounded BNF families x priority assignment x priority mode x lexer x ambiguous input: the resolved tree must be a reference derivation with optimal summed priority (empty-alternative clause where applicable), equal to the priority-erased grammar under priority=None, and identical across calls, instances and sub-processes under a bounded set of PYTHONHASHSEED values.',
         'bounded exhaustive enumeration against a reference derivation enumerator + digest comparison across hash seeds'),
 'C20': ('exploration', '4 C20', 'Every grammar of the plain-BNF families (incl. cyclic) x lexer x input is parsed with ambiguity=forest; all forest visitor/transformer classes must terminate, report cycles exactly when an independent graph walk finds one, and the expanded tree set must equal the set of unshaped reference derivations.',
         'bounded exhaustive enumeration of forests against a reference derivation enumerator and an independent cycle finder'),
 'C03': ('exploration', '4 C03', 'Every grammar of the SHAPE families (EBNF operators x helper spellings a/_a/?a/!a/template x aliases x kept/filtered/anonymous tokens, incl. a literal that coincides with a named terminal) x keep_all_tokens x maybe_placeholders x 6 engine/lexer pairs x every input up to the bound: the returned tree must be the documented shaping of a reference derivation; unique derivation = all engines agree.',
         'bounded exhaustive enumeration of (grammar, options, engine, input) against reference derivations + a shaping function written from the documentation'),
 'C02': ('model_checking', '4 C02', 'For every reduced grammar of the bounded BNF families x rule priorities: GrammarError iff the reference automaton (canonical LR(1) merged by core) has an unresolved reduce/reduce conflict; every state of the real parse table is compared row by row with the reference; the real pushdown automaton is walked breadth-first over all token strings up to the bound (choices/accepts/feed/feed_eof vs reference simulator, acceptance vs an independent CFG recogniser); parse() under both lexers agrees.',
         'explicit-state search of the real LALR pushdown automaton against a reference automaton + exhaustive table comparison'),
 'C08': ('exploration', '4 C08', 'Every productive grammar of the bounded families (single-character terminals, with/without %ignore) x 6 parser/lexer pairs x every rejected input (incl. unlexable characters): exception class, position (first token/character after the longest viable prefix, computed by an independent prefix-viability fix-point; reference LALR automaton for conflict grammars), $END/UnexpectedEOF conventions and the continuation sets in the stated directions.',
         'bounded exhaustive enumeration of rejected (grammar, engine, input) triples against a prefix-viability reference'),
 'C07': ('exploration', '4 C07', 'Every 2..4-subset of a 16-entry terminal menu x priorities x naming schemes x str/bytes x every input up to the bound is lexed by the real basic lexer and compared token by token with a reference lexer written from the documented order + keyword exception; 130-terminal sets natively and through a shim re enforcing the 100-group limit (chunking path); contextual lexer compared with basic (same tree) and with the reference tiling restricted by the reference LALR automaton.',
         'bounded exhaustive enumeration of (terminal set, input) against a reference lexer'),
 'C06': ('exploration', '4 C06', 'Tokens: 23 spellings of a newline-matching terminal (kept/ignored) x grammar shapes x 5 parser/lexer configurations x str/bytes x every input over {a,b,newline,blank} up to the bound, every token of parse() and lex() checked against count-newlines coordinates. Tree meta: SHAPE grammars with a newline-bearing filtered terminal x propagate_positions x engines x single-derivation inputs, every node span compared with the span of its reference derivation node.',
         'bounded exhaustive enumeration against an absolute coordinate function and reference derivation spans'),
 'C15': ('exploration', '4 C15', 'Newline-bearing grammars x parser/lexer pairs x every ASCII input up to the bound x representation: bytes must give the same observation as str; every TextSlice window (all prefixes/suffixes over {a,newline} up to length 2) must give the str observation shifted by the window start with line/column recomputed absolutely from the buffer, for trees (tokens + full meta) and for errors (class, position, token).',
         'bounded exhaustive differential enumeration (str vs bytes vs all windows) with an absolute coordinate anchor'),
 'C09': ('exploration', '4 C09', 'Every pair 0<=n<=m of the stated boxes (straddling the factoring threshold 50 from both sides) x 8 item kinds (in rules and inside terminals) x lalr/earley x every count k in 0..m+2 (lalr) or around the bounds (earley): accept iff n<=k<=m, exactly k consecutive children, no helper nodes; pairs of occurrences sharing the helper-rule cache; ? * + with k=0..6.',
         'bounded exhaustive enumeration of (n, m, item kind, parser, k) against an arithmetic oracle'),
 'C14': ('exploration', '4 C14', 'A menu of 15 LALR grammars x lexer x str/bytes x every text up to the bound x every window: list(scan()) must equal the leftmost-longest match list computed by brute force (reference lexer for the token boundaries of the full text, real parse() on every candidate window), each value equal to parse(TextSlice(text,s,e)) with positions and meta.',
         'bounded exhaustive enumeration of (grammar, text, window) against a brute-force leftmost-longest oracle'),
 'C13': ('model_checking', '4 C13', 'Explicit-state breadth-first search over fork trees of the real interactive parser (feed of every terminal legal or not, copy, copy.copy, as_immutable, as_mutable, immutable feed, accepts, feed_eof; <= 3 live handles; alias-preserving heap fingerprints) on 10 grammars x 4 option sets: every handle, finished results included, must equal a fresh parser fed its own history, accepts() must be exact, feed+eof must equal parse(text); a deep narrow mode (depth 8) and a text-attached part (resume_parse / exhaust_lexer on forks, lexer positions observed).',
         'explicit-state search over operation histories on live objects with a fresh-replay reference'),
 'C10': ('model_checking', '4 C10', 'Part A: every call history up to depth 3 (thorough 4) over a per-configuration alphabet of 13-19 operations (parse ok/failing, lex consumed/abandoned/dont_ignore, scan, abandoned interactive sessions, other instances) on 9 configurations incl. a stateful Indenter: every step must equal the same operation on a fresh instance. Part B: all schedules with <= 2 (thorough 3) preemptions of 2-3 real threads sharing one cold instance, under a cooperative scheduler built on sys.monitoring whose scheduling points are discovered from object-graph snapshots; every thread must observe its sequential result; the idempotent warm-up obligation is checked.',
         'explicit-state search over call histories + stateless preemption-bounded schedule exploration of real threads'),
 'C11': ('exploration', '4 C11', 'A menu of 19 LALR feature grammars (flag cube, imports, templates, priorities, 130 terminals, two start symbols, bytes, newline terminals) + LALR-acceptable SHAPE members x lexer x option sets x four implementations (direct, save/load through pickle bytes, cache hit on a path shared between option sets, stand-alone module executed in a fresh namespace) x parse / interactive feed with accepts() at every step / scan x every input up to the bound: canonical observations (trees with positions and meta, or error class/position/sets) must be equal.',
         'bounded exhaustive differential enumeration of (grammar, options, implementation, operation, input)'),
 'C12': ('fault_enumeration', '4 C12', 'On real cache files: every truncation offset and every single-bit flip (quick: 2 masks, thorough: all 8) of the valid file for several (grammar, options) pairs, each followed by Lark(g, cache=path) under a CPU watchdog and an address-space limit: the constructor must return, the instance must behave like the uncached build on all inputs up to the bound, and the file must be valid afterwards (next construction loads without calling load_grammar). Plus every history of <= 3 (thorough 4) events build(g_i,o_j) / edit_import / shadow_import / bump lark or Python version / truncate / garbage on one shared path.',
         'exhaustive fault enumeration (all crash points / bit flips of a cache file) + explicit-state search over build histories'),
 'C16': ('exploration', '4 C16', 'Part 1: every LALR-acceptable SHAPE grammar x keep_all_tokens x every input up to the bound x generated pure transformers (5 callback variants) x 4 base classes: the embedded result must equal the post-hoc transform of the plain parse. Part 2: every tree with <= 4 (thorough 5) internal nodes over 2 labels, 2 token types and None leaves: the four base classes must return equal results and invoke every callback exactly once, children before parents.',
         'bounded exhaustive differential enumeration (embedded vs post-hoc; all small trees x 4 traversal classes)'),
 'C18': ('model_checking', '4 C18', 'Every text of <= 4 (thorough 5) lines over 6 indentations x 8 line bodies (brackets, blanks, comment-only lines), with/without final newline, under two spellings of the newline terminal and tab_len 8/4, streamed through the real Indenter: the INDENT/DEDENT/NAME/paren sequence or DedentError must equal a reference column-stack automaton which is cross-validated against CPython tokenize on every text tokenize accepts; the object\'s (indent stack, bracket depth) is read after every token. Every sequence of <= 3 streams (complete, failing, abandoned) through one Indenter object must reproduce the fresh-object output.',
         'exhaustive enumeration of line structures against a reference automaton (cross-validated with CPython tokenize) + explicit-state search over stream histories'),
 'C19': ('exploration', '4 C19', 'Every SHAPE-family grammar (with extra slice-/sum-like ?rule helpers) that passes our syntactic test for the supported class and LALR strict mode, plus a menu of multi-rule expression/list/keyword/sigil grammars; lalr and earley; every accepted input up to the bound, all through one Reconstructor per grammar in forward and reverse order: reconstruct(parse(w)) must re-parse to an equal tree.',
         'bounded exhaustive round-trip enumeration over grammars of the supported class and all their accepted inputs'),
 'C17': ('exploration', '4 C17', 'For 9 base grammars (expressions, underscore names, templates incl. module-internal and underscore templates, modifiers/priorities, terminals composed from terminals): every dependency-closed split into main + module x 5 import forms x variants (plain, local name clash, %override, %extend) x lalr / earley(explicit, sets) x every input up to the bound, compared with the hand-inlined grammar produced by our own renamer (documented module__name prefix for transitively imported names).',
         'bounded exhaustive differential enumeration of (split, import form, variant, input) against hand-inlined grammars'),
}
NOT_YET = {}
def main():
    props = [json.loads(l)['id'] for l in open('/verif/properties.jsonl')]
    checks = []
    for pid in props:
        if pid not in CHECKS: continue
        level, ref, text, tech = CHECKS[pid]
        checks.append({
            'property_id': pid,
            'quick_cmd': './check %s --tier quick' % pid,
            'thorough_cmd': './check %s --tier thorough' % pid,
            'evidence_file': '/verif/evidence/%s.json' % pid,
            'replay_cmd_template': './check %s --replay {path}' % pid,
            'engine': 'lmc',
            'level_claimed': {'category': level, 'text': text, 'design_ref': 'DESIGN.md section ' + ref},
            'level_note': TRUST,
            'technique': tech,
        })
    na = [{'property_id': p, 'reason': NOT_YET.get(p, 'check not built yet in this session (planned in DESIGN.md section 4); not claimed until its check exists and is silent on the unchanged tree')}
          for p in props if p not in CHECKS]
    m = {'version': 1, 'setup_cmd': './setup.sh',
         'hooks': {'guard': 'LARK_VERIF', 'enable': 'no source hooks: checks import /repo directly; scheduling via sys.monitoring, file system via lark.utils.FS seam',
                   'baseline_off_cmd': BASE, 'source_commits': [], 'add_only': True},
         'engines': [{'name': 'lmc', 'path': '/verif/lmc', 'serves_properties': [c['property_id'] for c in checks],
                      'kind_free_text': 'hand-written bounded-exhaustive explorer for Python: input-space enumeration against reference models, explicit-state search over operation histories on live objects, preemption-bounded schedule exploration (sys.monitoring)'}],
         'checks': checks, 'not_applicable': na,
         'notes': 'Known genuine defects are listed in /verif/known_findings.json (printed as KNOWN-FINDING lines). See DESIGN.md.'}
    json.dump(m, open('/verif/MANIFEST.json', 'w'), indent=1)
    import jsonschema
    jsonschema.validate(m, json.load(open('/root/.vp/MANIFEST.schema.json')))
    print('MANIFEST ok:', len(checks), 'checks,', len(na), 'not claimed')
if __name__ == '__main__':
    main()
