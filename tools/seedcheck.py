#!/venv/bin/python
"""Validate a seeded defect produced by a sub-agent and archive it under /verif/seeded/<id>/.
usage: tools/seedcheck.py <seed_dir> <seed_id> <property> [--checks C01,C08] [--needs "text"]
Steps (all on scratch copies under /dev/shm, removed afterwards): (1) demo exits 0 on the pristine tree,
(2) patch applies, (3) the pinned test-suite passes with the patch, (4) demo exits non-zero with the patch,
(5) the listed checks (quick tier) are run against the patched copy; the outcome is recorded in meta.json."""
import json, os, shutil, subprocess, sys, tempfile, glob, time

def sh(cmd, **kw):
    return subprocess.run(cmd, capture_output=True, text=True, **kw)

def main():
    sd, sid, prop = sys.argv[1], sys.argv[2], sys.argv[3]
    checks = [prop]
    if '--checks' in sys.argv:
        checks = sys.argv[sys.argv.index('--checks') + 1].split(',')
    needs = sys.argv[sys.argv.index('--needs') + 1] if '--needs' in sys.argv else ''
    demo = sorted(glob.glob(os.path.join(sd, 'demo*.py')))[0]
    patch = os.path.join(sd, 'patch.diff')
    d = tempfile.mkdtemp(prefix='seed_', dir='/dev/shm')
    meta = {'id': sid, 'property': prop, 'needs_to_manifest': needs, 'ran': []}
    try:
        repo = os.path.join(d, 'repo')
        subprocess.check_call(['rsync', '-a', '--exclude', '.git', '--exclude', '__pycache__', '--exclude', 'SEED', '/repo/', repo + '/'])
        env = dict(os.environ, PYTHONPATH=repo, PYTHONDONTWRITEBYTECODE='1')
        r = sh(['timeout', '600', '/venv/bin/python', demo], env=env, cwd=d)
        meta['demo_on_unchanged_tree_exit'] = r.returncode
        meta['ran'].append('PYTHONPATH=<pristine copy of /repo HEAD> python demo.py -> exit %d' % r.returncode)
        r = sh(['patch', '-p1', '-s', '-d', repo, '-i', os.path.abspath(patch)])
        meta['patch_applies'] = r.returncode == 0
        if r.returncode:
            print('PATCH FAILED', r.stdout, r.stderr)
        r = sh(['/venv/bin/python', '-m', 'pytest', '-p', 'no:cacheprovider', '-n', '8', 'tests'], env=env, cwd=repo)
        tail = (r.stdout.strip().splitlines() or ['?'])[-1]
        meta['suite_with_patch'] = tail
        meta['ran'].append('pytest -n 8 tests on the patched copy -> ' + tail)
        r = sh(['timeout', '600', '/venv/bin/python', demo], env=env, cwd=d)
        meta['demo_on_patched_tree_exit'] = r.returncode
        meta['ran'].append('PYTHONPATH=<patched copy> python demo.py -> exit %d' % r.returncode)
        meta['detected_by'] = {}
        for pid in checks:
            t0 = time.time()
            r = sh(['/verif/check', pid, '--tier', 'quick'], env=dict(os.environ, LMC_REPO=repo, LMC_OUT=os.path.join(d, 'out')))
            lines = [l.strip() for l in r.stdout.splitlines() if l.startswith(('VIOLATION', '  kind='))]
            meta['detected_by'][pid] = {'exit': r.returncode, 'report': [l.replace(d, '<scratch>') for l in lines[:6]], 'wall_s': round(time.time() - t0)}
            meta['ran'].append('LMC_REPO=<patched copy> ./check %s --tier quick -> exit %d' % (pid, r.returncode))
        ok = (meta['demo_on_unchanged_tree_exit'] == 0 and meta['patch_applies'] and 'passed' in meta['suite_with_patch']
              and 'failed' not in meta['suite_with_patch'] and meta['demo_on_patched_tree_exit'] != 0)
        meta['valid_seed'] = ok
        if ok:
            out = os.path.join('/verif/seeded', sid)
            os.makedirs(out, exist_ok=True)
            shutil.copy(patch, os.path.join(out, 'patch.diff'))
            shutil.copy(demo, os.path.join(out, 'demo.py'))
            if os.path.exists(os.path.join(sd, 'notes.txt')):
                shutil.copy(os.path.join(sd, 'notes.txt'), os.path.join(out, 'notes.txt'))
            json.dump(meta, open(os.path.join(out, 'meta.json'), 'w'), indent=1)
        print(json.dumps(meta, indent=1))
    finally:
        shutil.rmtree(d, ignore_errors=True)

if __name__ == '__main__':
    main()
