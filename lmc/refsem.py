"""Reference semantics of a grammar (gram.Grammar) on one input: recogniser, prefix viability, derivations, shaping.

Everything is a naive least fix-point over the EBNF AST; nothing here shares structure with lark's Earley/LALR/CYK
code or with its EBNF->BNF compiler.  The input is abstracted as an *edge table*:
    positions 0..n,   T[key][i] = set of end positions of terminal `key` starting exactly at i,
    reach[i] = positions reachable from i through ignored terminals (reflexive).
Character level: positions are offsets (Edges.chars).  Token level: positions are token indices (Edges.tokens).
"""
import itertools

from . import gram, reflex


class TooAmbiguous(Exception):
    pass


class Edges:
    def __init__(self, n, T, reach):
        self.n, self.T, self.reach = n, T, reach

    @classmethod
    def chars(cls, g, text, mode='exact', ign_mode=None):
        n = len(text)
        T = {k: reflex.term_edges(gram.term_pats(g, k), text, mode) for k in gram.term_keys(g)}
        ign = [reflex.term_edges(g.terms[name].pats, text, ign_mode or mode) for name in g.ignore]
        reach = reflex.ignore_closure(ign, n) if ign else [{i} for i in range(n + 1)]
        return cls(n, T, reach)

    @classmethod
    def tokens(cls, g, toks):
        """toks: list of terminal keys (already tokenised, ignored ones dropped)."""
        n = len(toks)
        T = {k: [({i + 1} if i < n and toks[i] == k else set()) for i in range(n + 1)] for k in gram.term_keys(g)}
        return cls(n, T, [{i} for i in range(n + 1)])

    def term(self, key, i):
        """(start, end) pairs for terminal `key` at i, skipping ignored text first."""
        Tk = self.T[key]
        return [(s, j) for s in self.reach[i] for j in Tk[s]]


# ---------------------------------------------------------------------------------------------------
# recogniser

class Chart:
    """C[A][i] = set of j such that A derives positions i..j (ignored text allowed before every token)."""

    def __init__(self, g, E):
        self.g, self.E = g, E
        n = E.n
        self.C = C = {A: [set() for _ in range(n + 1)] for A in g.rules}
        rules = list(g.rules.values())
        changed = True
        while changed:
            changed = False
            for r in rules:
                CA = C[r.name]
                for i in range(n + 1):
                    cur = CA[i]
                    for seq, _ in r.alts:
                        e = self.seq(seq, i)
                        if not e <= cur:
                            cur |= e
                            changed = True

    def seq(self, seq, i):
        cur = {i}
        for it in seq:
            nxt = set()
            for p in cur:
                nxt |= self.item(it, p)
            cur = nxt
            if not cur:
                break
        return cur

    def alts(self, alts, i):
        out = set()
        for s in alts:
            out |= self.seq(s, i)
        return out

    def item(self, it, i):
        k = it[0]
        if k == 'ref':
            return self.C[it[1]][i]
        if k in ('tok', 'lit', 're'):
            Tk = self.E.T[it]
            out = set()
            for s in self.E.reach[i]:
                out |= Tk[s]
            return out
        if k == 'opt':
            return {i} | self.item(it[1], i)
        if k == 'maybe':
            return {i} | self.alts(it[1], i)
        if k == 'group':
            return self.alts(it[1], i)
        if k in ('star', 'plus'):
            seen = set()
            frontier = {i}
            first = True
            out = set() if k == 'plus' else {i}
            while frontier:
                nxt = set()
                for p in frontier:
                    nxt |= self.item(it[1], p)
                out |= nxt
                frontier = nxt - seen
                seen |= nxt
            return out
        if k == 'rep':
            _, x, lo, hi = it
            cur = {i}
            out = set(cur) if lo == 0 else set()
            for c in range(1, hi + 1):
                nxt = set()
                for p in cur:
                    nxt |= self.item(x, p)
                cur = nxt
                if not cur:
                    break
                if c >= lo:
                    out |= cur
            return out
        raise ValueError(it)

    def accepts(self):
        n = self.E.n
        return any(n in self.E.reach[j] for j in self.C[self.g.start][0])


def accepts(g, E):
    return Chart(g, E).accepts()


# ---------------------------------------------------------------------------------------------------
# derivations
#
# A derivation node is ('n', rule_name, alt_index, events) where events is a tuple of
#   ('t', key, start, end)            a matched terminal occurrence
#   ('n', ...)                        a sub-derivation
#   ('none', alts)                    an unmatched [alts] (its placeholder width is decided when shaping)
# EBNF operators (?, *, +, ~, groups) flatten into the parent's event list, which is what "no helper nodes are
# visible" means.

def maybe_width(alts, keep_all=False):
    """Number of placeholders an unmatched [alts] contributes: the largest number of kept symbols among its
    alternatives (rule references not starting with '_', kept tokens; nested [..]/? by their own size)."""
    return max((sum(_kept_width(it, keep_all) for it in s) for s in alts), default=0)


def _kept_width(it, keep_all=False):
    k = it[0]
    if k == 'ref':
        return 0 if it[1].startswith('_') else 1
    if k == 'tok':
        return 0 if (it[1].startswith('_') and not keep_all) else 1
    if k == 'lit':
        return 1 if keep_all else 0
    if k == 're':
        return 1
    if k == 'opt':
        return _kept_width(it[1], keep_all)
    if k in ('maybe', 'group'):
        return max((sum(_kept_width(x, keep_all) for x in s) for s in it[1]), default=0)
    if k in ('star', 'plus'):
        return 0
    if k == 'rep':
        return it[3] * _kept_width(it[1], keep_all)
    if k == 'tmpl':
        return 0 if it[1].startswith('_') else 1
    raise ValueError(it)


class Derivations:
    def __init__(self, g, E, cap=256):
        self.g, self.E, self.cap = g, E, cap
        self.chart = Chart(g, E)
        n = E.n
        self.D = D = {A: [dict() for _ in range(n + 1)] for A in g.rules}    # D[A][i][j] = set of nodes
        rules = list(g.rules.values())
        changed = True
        rounds = 0
        while changed:
            changed = False
            rounds += 1
            if rounds > 64:
                raise TooAmbiguous()
            for r in rules:
                for i in range(n + 1):
                    if not self.chart.C[r.name][i]:
                        continue
                    slot = D[r.name][i]
                    for ai, (seq, _) in enumerate(r.alts):
                        for j, evs in self.seq(seq, i).items():
                            s = slot.setdefault(j, set())
                            for ev in evs:
                                node = ('n', r.name, ai, ev)
                                if node not in s:
                                    s.add(node)
                                    changed = True
                            if len(s) > cap:
                                raise TooAmbiguous()

    def roots(self):
        n = self.E.n
        out = set()
        for j, nodes in self.D[self.g.start][0].items():
            if n in self.E.reach[j]:
                out |= nodes
        return out

    # each of seq/alts/item returns {end: set(event tuples)}
    def seq(self, seq, i):
        cur = {i: {()}}
        for it in seq:
            nxt = {}
            for p, pre in cur.items():
                for j, evs in self.item(it, p).items():
                    s = nxt.setdefault(j, set())
                    for a in pre:
                        for b in evs:
                            s.add(a + b)
                    if len(s) > self.cap * 4:
                        raise TooAmbiguous()
            cur = nxt
            if not cur:
                break
        return cur

    def alts(self, alts, i):
        out = {}
        for s in alts:
            for j, evs in self.seq(s, i).items():
                out.setdefault(j, set()).update(evs)
        return out

    def item(self, it, i):
        k = it[0]
        if k == 'ref':
            return {j: {(nd,) for nd in nodes} for j, nodes in self.D[it[1]][i].items()}
        if k in ('tok', 'lit', 're'):
            out = {}
            for s, j in self.E.term(it, i):
                out.setdefault(j, set()).add((('t', it, s, j),))
            return out
        if k == 'opt':
            out = {i: {()}}
            for j, evs in self.item(it[1], i).items():
                out.setdefault(j, set()).update(evs)
            return out
        if k == 'maybe':
            out = {i: {(('none', it[1]),)}}
            for j, evs in self.alts(it[1], i).items():
                out.setdefault(j, set()).update(evs)
            return out
        if k == 'group':
            return self.alts(it[1], i)
        if k in ('star', 'plus', 'rep'):
            if k == 'rep':
                _, x, lo, hi = it
            else:
                x, lo, hi = it[1], (0 if k == 'star' else 1), self.E.n + 2
            out = {}
            cur = {i: {()}}
            if lo == 0:
                out[i] = {()}
            for c in range(1, hi + 1):
                nxt = {}
                for p, pre in cur.items():
                    for j, evs in self.item(x, p).items():
                        if j == p and k != 'rep':
                            # an empty iteration of * / + adds nothing new -- except the single obligatory iteration of
                            # a `+` over a nullable body, which is how `(x*)+` derives the empty string at all
                            if any(b for b in evs):
                                raise TooAmbiguous()    # empty iterations that leave placeholders: unboundedly many shapes
                            if not (k == 'plus' and c == 1):
                                continue
                        s = nxt.setdefault(j, set())
                        for a in pre:
                            for b in evs:
                                s.add(a + b)
                        if len(s) > self.cap * 4:
                            raise TooAmbiguous()
                cur = nxt
                if not cur:
                    break
                if c >= lo:
                    for j, evs in cur.items():
                        out.setdefault(j, set()).update(evs)
            return out
        raise ValueError(it)


def derivations(g, E, cap=256):
    """Set of derivation nodes of the whole input, or raises TooAmbiguous."""
    return Derivations(g, E, cap).roots()


# ---------------------------------------------------------------------------------------------------
# grammar-level predicates

def nullable_set(g):
    nullable = set()
    changed = True

    def item_null(it):
        k = it[0]
        if k == 'ref':
            return it[1] in nullable
        if k in ('tok', 'lit', 're'):
            return False
        if k in ('opt', 'star', 'maybe'):
            return True
        if k == 'plus':
            return item_null(it[1])
        if k == 'rep':
            return it[2] == 0 or item_null(it[1])
        if k == 'group':
            return any(all(item_null(x) for x in s) for s in it[1])
        raise ValueError(it)
    while changed:
        changed = False
        for r in g.rules.values():
            if r.name not in nullable and any(all(item_null(x) for x in s) for s, _ in r.alts):
                nullable.add(r.name)
                changed = True
    return nullable, item_null


def refs_of(seq):
    return [it[1] for it in gram.items_of(seq) if it[0] == 'ref']


def reachable(g):
    seen, todo = {g.start}, [g.start]
    while todo:
        r = g.rules[todo.pop()]
        for s, _ in r.alts:
            for x in refs_of(s):
                if x not in seen and x in g.rules:
                    seen.add(x)
                    todo.append(x)
    return seen


def productive(g):
    prod = set()
    changed = True

    def ok(it):
        k = it[0]
        if k == 'ref':
            return it[1] in prod
        if k in ('tok', 'lit', 're', 'opt', 'star', 'maybe'):
            return True
        if k == 'plus':
            return ok(it[1])
        if k == 'rep':
            return it[2] == 0 or ok(it[1])
        if k == 'group':
            return any(all(ok(x) for x in s) for s in it[1])
        raise ValueError(it)
    while changed:
        changed = False
        for r in g.rules.values():
            if r.name not in prod and any(all(ok(x) for x in s) for s, _ in r.alts):
                prod.add(r.name)
                changed = True
    return prod


def cyclic(g):
    """Does some non-terminal derive itself (A =>+ A)?  BNF-level test on plain sequences of ref/terminal items
    (sufficient for the BNF families; EBNF bodies are treated conservatively through nullable items)."""
    nullable, item_null = nullable_set(g)
    unit = {A: set() for A in g.rules}      # A => B with everything else in the alternative nullable

    def unit_targets(seq):
        out = set()
        for idx, it in enumerate(seq):
            rest = seq[:idx] + seq[idx + 1:]
            if not all(item_null(x) for x in rest):
                continue
            out |= inner_refs(it)
        return out

    def inner_refs(it):
        k = it[0]
        if k == 'ref':
            return {it[1]}
        if k in ('opt', 'star', 'plus'):
            return inner_refs(it[1])
        if k == 'rep':
            return inner_refs(it[1]) if it[3] >= 1 else set()
        if k in ('maybe', 'group'):
            out = set()
            for s in it[1]:
                out |= unit_targets(s)
            return out
        return set()
    for r in g.rules.values():
        for s, _ in r.alts:
            unit[r.name] |= unit_targets(s)
    # transitive closure
    for A in g.rules:
        seen, todo = set(), list(unit[A])
        while todo:
            b = todo.pop()
            if b == A:
                return True
            if b in seen or b not in unit:
                continue
            seen.add(b)
            todo.extend(unit[b])
    return False


# ---------------------------------------------------------------------------------------------------
# shaping (docs/tree_construction.md + the statement of C03)

def tok_kept(key, rule, keep_all):
    if keep_all or '!' in rule.mod:
        return True
    if key[0] == 'lit':
        return False
    if key[0] == 'tok':
        return not key[1].startswith('_')
    return True


def shape(node, g, text, keep_all=False, placeholders=True, tokval=None):
    """Shaped tree of a derivation: ('tree', label, children) with children = trees, ('tok', typekey, value), None.
    Returns either such a tree or, for a collapsing ?rule at the root, its single child."""
    res = _shape(node, g, text, keep_all, placeholders)
    return res[1] if res[0] == 'one' else ('tree', res[1], tuple(res[2]))


def _shape(node, g, text, keep_all, ph):
    """-> ('tree', label, children) | ('splice', children) | ('one', child)"""
    _, rname, ai, events = node
    rule = g.rules[rname]
    alias = rule.alts[ai][1]
    ch = []
    for ev in events:
        k = ev[0]
        if k == 't':
            if tok_kept(ev[1], rule, keep_all):
                ch.append(('tok', ev[1], text[ev[2]:ev[3]]))
        elif k == 'none':
            if ph:
                ch.extend([None] * maybe_width(ev[1], keep_all or '!' in rule.mod))
        else:
            sub = _shape(ev, g, text, keep_all, ph)
            if sub[0] == 'splice':
                ch.extend(sub[1])
            elif sub[0] == 'one':
                ch.append(sub[1])
            else:
                ch.append(('tree', sub[1], tuple(sub[2])))
    label = alias or rule.name.split('{')[0]
    if '?' in rule.mod and not alias and len(ch) == 1:
        return ('one', ch[0])
    if rule.name.startswith('_') and not alias:
        return ('splice', ch)
    return ('tree', label, ch)


def unshaped(node, text):
    """The derivation as a tree with every token kept and nothing inlined (C20, C05)."""
    _, rname, ai, events = node
    ch = []
    for ev in events:
        if ev[0] == 't':
            ch.append(('tok', ev[1], text[ev[2]:ev[3]]))
        elif ev[0] == 'n':
            ch.append(unshaped(ev, text))
    return ('tree', rname, tuple(ch))


def priority(node, g, with_terms=False):
    """Sum of the priorities of all rule applications (+ terminal priorities for the dynamic lexers)."""
    _, rname, ai, events = node
    p = g.rules[rname].prio or 0
    for ev in events:
        if ev[0] == 'n':
            p += priority(ev, g, with_terms)
        elif ev[0] == 't' and with_terms and ev[1][0] == 'tok':
            p += g.terms[ev[1][1]].prio
    return p


def uses_empty_alt(node, g):
    """(rule, span-independent) list of rule applications that used a directly empty alternative."""
    out = []
    _, rname, ai, events = node
    if len(g.rules[rname].alts[ai][0]) == 0:
        out.append(rname)
    for ev in events:
        if ev[0] == 'n':
            out.extend(uses_empty_alt(ev, g))
    return out


# ---------------------------------------------------------------------------------------------------
# The documented construction failure: "colliding expansion of optionals"

def _expansions(seq, ph, helpers):
    """All annotated expansions of a sequence: tuples of symbols where an unmatched [..] leaves ('E', k) markers
    (placeholders on) and * + ~large become opaque helper symbols whose bodies are collected in `helpers`."""
    outs = [()]
    for it in seq:
        alts = _item_exp(it, ph, helpers)
        outs = [a + b for a in outs for b in alts]
        if len(outs) > 4096:
            raise TooAmbiguous()
    return outs


def _item_exp(it, ph, helpers):
    k = it[0]
    if k in ('tok', 'lit', 're', 'ref', 'tmpl'):
        return [(it,)]
    if k == 'opt':
        return _item_exp(it[1], ph, helpers) + [()]
    if k == 'group':
        return [e for s in it[1] for e in _expansions(s, ph, helpers)]
    if k == 'maybe':
        inner = [e for s in it[1] for e in _expansions(s, ph, helpers)]
        w = maybe_width(it[1])
        return inner + [((('E', w),) if (ph and w) else ())]
    if k in ('star', 'plus'):
        helpers.append(_item_exp(it[1], ph, helpers))
        h = (('H', k, it[1]),)
        return [h, ()] if k == 'star' else [h]
    if k == 'rep':
        _, x, lo, hi = it
        if hi >= 50:
            return [(('H', 'rep', it),)]
        base = _item_exp(x, ph, helpers)
        out = []
        for c in range(lo, hi + 1):
            cur = [()]
            for _ in range(c):
                cur = [a + b for a in cur for b in base]
                if len(cur) > 4096:
                    raise TooAmbiguous()
            out += cur
        return out
    raise ValueError(it)


def _erase(e, same=None):
    if same:
        return tuple(same.get(s, s) for s in e if s[0] != 'E')
    return tuple(s for s in e if s[0] != 'E')


def construction_may_fail(g, placeholders=True):
    """True iff some rule (or repetition helper) has two expansion *paths* of its optional items (?, [..], ~n..m,
    alternatives differing only in alias or placeholder positions) that erase to the same non-empty symbol sequence --
    the documented GrammarError("Rules defined twice ... colliding expansion of optionals") case.  Only used in the
    direction GrammarError => predicate."""
    # an anonymous literal whose text is the pattern of a named terminal *is* that terminal
    same = {('lit', t.pats[0][1]): ('tok', t.name) for t in g.terms.values()
            if len(t.pats) == 1 and t.pats[0][0] == 'str' and not t.pats[0][2]}
    try:
        for r in g.rules.values():
            helpers = []
            seen = set()
            for seq, alias in r.alts:
                for e in _expansions(seq, placeholders, helpers):
                    er = _erase(e, same)
                    if er and er in seen:
                        return True
                    seen.add(er)
            for body in helpers:
                seen = set()
                for e in body:
                    er = _erase(e, same)
                    if er and er in seen:
                        return True
                    seen.add(er)
    except TooAmbiguous:
        return True
    return False


# ---------------------------------------------------------------------------------------------------
# prefix viability: is the input (positions 0..n) a prefix of a sentence?  (all non-terminals productive)

class Viable:
    """part(A, i): A =>* input[i:n] gamma  for some (possibly empty) gamma -- a second least fix-point on top of
    the chart.  The grammar must be productive (every non-terminal derives some terminal string)."""

    def __init__(self, g, E):
        self.g, self.E = g, E
        self.chart = Chart(g, E)
        n = E.n
        self.P = P = {A: [False] * (n + 1) for A in g.rules}
        changed = True
        while changed:
            changed = False
            for r in g.rules.values():
                PA = P[r.name]
                for i in range(n + 1):
                    if not PA[i] and any(self.part_seq(seq, i) for seq, _ in r.alts):
                        PA[i] = True
                        changed = True

    def at_end(self, i):
        return self.E.n in self.E.reach[i]

    def part_seq(self, seq, i):
        if self.at_end(i):
            return True
        cur = {i}
        for it in seq:
            if any(self.part_item(it, p) for p in cur):
                return True
            nxt = set()
            for p in cur:
                nxt |= self.chart.item(it, p)
            cur = nxt
            if not cur:
                return False
        return any(self.at_end(p) for p in cur)

    def part_item(self, it, i):
        if self.at_end(i):
            return True
        k = it[0]
        if k == 'ref':
            return self.P[it[1]][i]
        if k in ('tok', 'lit', 're'):
            return any(self.at_end(j) for j in self.chart.item(it, i))
        if k == 'opt':
            return self.part_item(it[1], i)
        if k in ('maybe', 'group'):
            return any(self.part_seq(s, i) for s in it[1])
        if k in ('star', 'plus', 'rep'):
            x = it[1]
            hi = it[3] if k == 'rep' else self.E.n + 2
            cur, seen = {i}, set()
            for _ in range(hi):
                if any(self.part_item(x, p) for p in cur):
                    return True
                nxt = set()
                for p in cur:
                    nxt |= self.chart.item(x, p)
                cur = nxt - seen
                seen |= nxt
                if not cur:
                    break
            return False
        raise ValueError(it)

    def viable(self):
        return self.part_item(('ref', self.g.start), 0) or self.chart.accepts()


def viable_tokens(g, toks):
    """Is the terminal-key sequence a prefix of a sentence?"""
    return Viable(g, Edges.tokens(g, toks)).viable()
