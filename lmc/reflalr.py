"""Reference LALR(1): canonical LR(1) item sets by closure/goto with FIRST sets, merged by LR(0) core.
Deliberately *not* DeRemer-Pennello (which is what lark implements).  BNF grammars only: every alternative is a plain
sequence of ('ref', A) / ('tok', T) / ('lit', s) items.
"""
END = '$END'
ROOT = '$root'


class RefLALR:
    def __init__(self, g, starts=None):
        """starts: several start symbols -> ONE automaton with one root production per start symbol (what
        Lark(start=[...]) builds); states reached from different roots are merged by core like all others."""
        self.g = g
        self.starts = list(starts) if starts else [g.start]
        # rules: (lhs, rhs tuple of symbols, priority); symbols: ('ref',A) or terminal keys
        self.rules = [((ROOT if len(self.starts) == 1 else '%s_%s' % (ROOT, s_)), (('ref', s_),), 0) for s_ in self.starts]
        self.nroots = len(self.rules)
        for r in g.rules.values():
            for seq, _ in r.alts:
                self.rules.append((r.name, tuple(seq), r.prio or 0))
        self.by_lhs = {}
        for i, (lhs, rhs, _) in enumerate(self.rules):
            self.by_lhs.setdefault(lhs, []).append(i)
        self._first()
        self._build()

    # -- FIRST / nullable over symbol strings
    def _first(self):
        self.nullable = set()
        self.first = {A: set() for A in self.by_lhs}
        changed = True
        while changed:
            changed = False
            for lhs, rhs, _ in self.rules:
                f = self.first[lhs]
                allnull = True
                for s in rhs:
                    if s[0] == 'ref':
                        new = self.first[s[1]] - f
                        if new:
                            f |= new
                            changed = True
                        if s[1] not in self.nullable:
                            allnull = False
                            break
                    else:
                        if s not in f:
                            f.add(s)
                            changed = True
                        allnull = False
                        break
                if allnull and lhs not in self.nullable:
                    self.nullable.add(lhs)
                    changed = True

    def first_of(self, syms, la):
        out = set()
        for s in syms:
            if s[0] == 'ref':
                out |= self.first[s[1]]
                if s[1] not in self.nullable:
                    return out
            else:
                out.add(s)
                return out
        out.add(la)
        return out

    def closure(self, items):
        items = set(items)
        todo = list(items)
        while todo:
            ri, dot, la = todo.pop()
            rhs = self.rules[ri][1]
            if dot < len(rhs) and rhs[dot][0] == 'ref':
                for b in self.first_of(rhs[dot + 1:], la):
                    for rj in self.by_lhs[rhs[dot][1]]:
                        it = (rj, 0, b)
                        if it not in items:
                            items.add(it)
                            todo.append(it)
        return frozenset(items)

    def _build(self):
        roots = [self.closure({(i, 0, END)}) for i in range(self.nroots)]
        start = roots[0]
        states, order = {}, []
        for st0 in roots:
            if st0 not in states:
                states[st0] = len(order)
                order.append(st0)
        trans = {}
        todo = list(order)
        while todo:
            st = todo.pop()
            by_sym = {}
            for ri, dot, la in st:
                rhs = self.rules[ri][1]
                if dot < len(rhs):
                    by_sym.setdefault(rhs[dot], set()).add((ri, dot + 1, la))
            for sym, kern in by_sym.items():
                nxt = self.closure(kern)
                if nxt not in states:
                    states[nxt] = len(order)
                    order.append(nxt)
                    todo.append(nxt)
                trans[st, sym] = nxt
        self.lr1_states = len(order)
        # merge by core
        core_of = {st: frozenset((ri, dot) for ri, dot, _ in st) for st in order}
        self.cores = {}
        for st in order:
            self.cores.setdefault(core_of[st], set()).update(st)
        self.start_core = core_of[start]
        self.start_cores = {s_: core_of[roots[i]] for i, s_ in enumerate(self.starts)}
        self.shift = {}      # (core, sym) -> core
        for (st, sym), nxt in trans.items():
            self.shift[core_of[st], sym] = core_of[nxt]
        self.reduce = {}     # core -> {la: set(rule index)}
        for core, items in self.cores.items():
            red = {}
            for ri, dot, la in items:
                if dot == len(self.rules[ri][1]) and ri >= self.nroots:
                    red.setdefault(la, set()).add(ri)
            self.reduce[core] = red
        self.end_core = self.shift.get((self.start_core, ('ref', self.starts[0])))
        self.end_cores = {s_: self.shift.get((self.start_cores[s_], ('ref', s_))) for s_ in self.starts}

    # -- conflicts and the resolved action table
    def rr_conflicts(self):
        out = []
        for core, red in self.reduce.items():
            for la, rules in red.items():
                if len(rules) > 1:
                    pr = sorted((self.rules[r][2] for r in rules), reverse=True)
                    if not pr[0] > pr[1]:
                        out.append((core, la, rules))
        return out

    def rr_resolved_by_priority(self):
        """(core, la) pairs where two reduce rules compete and a strict priority winner exists."""
        return [(core, la) for core, red in self.reduce.items() for la, rules in red.items() if len(rules) > 1]

    def sr_conflicts(self):
        out = []
        for core, red in self.reduce.items():
            for la in red:
                if (core, la) in self.shift:
                    out.append((core, la))
        return out

    def row(self, core):
        """Resolved action row: {symbol: ('s', core) | ('r', rule index)}; shift wins, priorities resolve R/R."""
        row = {}
        for la, rules in self.reduce[core].items():
            if len(rules) > 1:
                best = max(rules, key=lambda r: self.rules[r][2])
                row[la] = ('r', best)
            else:
                row[la] = ('r', next(iter(rules)))
        for (c, sym), nxt in self.shift.items():
            if c == core:
                row[sym] = ('s', nxt)
        return row

    def table(self):
        return {core: self.row(core) for core in self.cores}

    # -- simulator
    def sim(self, start=None):
        return Sim(self, start=start)


class Sim:
    def __init__(self, ref, stack=None, start=None, end=None):
        self.ref = ref
        self.table = ref._table if hasattr(ref, '_table') else ref.__dict__.setdefault('_table', ref.table())
        self.stack = stack or [ref.start_cores[start] if start else ref.start_core]
        self.end = end if end is not None else (ref.end_cores[start] if start else ref.end_core)

    def copy(self):
        return Sim(self.ref, list(self.stack), end=self.end)

    def feed(self, sym):
        """Feed a terminal key (or END).  Returns 'shift' | 'accept' | 'error'.  On error the stack is left where the
        error was noticed (after possible reductions), like the real driver."""
        steps = 0
        while True:
            steps += 1
            if steps > 10000:
                return 'loop'
            act = self.table[self.stack[-1]].get(sym)
            if act is None:
                return 'error'
            if act[0] == 's':
                self.stack.append(act[1])
                return 'shift'
            lhs, rhs, _ = self.ref.rules[act[1]]
            if rhs:
                del self.stack[-len(rhs):]
            self.stack.append(self.table[self.stack[-1]][('ref', lhs)][1])
            if sym == END and self.stack[-1] == self.end:
                return 'accept'

    def terminals(self):
        """Terminals with an action in the current state (what choices() should offer)."""
        return {s for s in self.table[self.stack[-1]] if s[0] != 'ref'}

    def can_feed(self, sym):
        return self.copy().feed(sym) in ('shift', 'accept')
