"""Our own grammar representation (independent of lark.load_grammar) and its printer to .lark syntax.

Items are plain tuples (hashable, cheap):
  ('lit', 'x')          anonymous string literal  "x"
  ('re', 'a+')          anonymous regexp          /a+/
  ('tok', 'X')          reference to a named terminal
  ('ref', 'a')          reference to a rule
  ('opt', item)         item?
  ('star', item)        item*
  ('plus', item)        item+
  ('rep', item, n, m)   item~n..m   (m == n printed as ~n)
  ('maybe', alts)       [ a | b ]   alts: tuple of sequences (sequence = tuple of items)
  ('group', alts)       ( a | b )
  ('tmpl', name, args)  name{arg, ...}    args: tuple of items
A rule alternative is (sequence, alias-or-None).
"""
import json
from collections import namedtuple

# name carries the leading underscore if any; mod in {'', '?', '!'}
Rule = namedtuple('Rule', 'name mod prio alts params', defaults=('', None, (), ()))
# pats: tuple of (kind, value, flags) with kind in {'str','re'}; the terminal is their union
Term = namedtuple('Term', 'name pats prio', defaults=(0,))


class Grammar:
    def __init__(self, rules, terms=(), ignore=(), start='start', header=''):
        self.rules = {r.name: r for r in rules}
        self.terms = {t.name: t for t in terms}
        self.ignore = tuple(ignore)         # names of ignored terminals
        self.start = start
        self.header = header                # extra raw lines (imports ...), not interpreted by the reference

    def text(self):
        return to_lark(self)


def lit(s):
    return json.dumps(s)


def pat_text(p):
    kind, value, flags = p
    if kind == 'str':
        return lit(value) + flags
    if kind == 'range':         # "a".."c"  (value = the two end characters)
        return '%s..%s' % (lit(value[0]), lit(value[1]))
    return '/%s/%s' % (value.replace('/', '\\/'), flags)


def item_text(it):
    k = it[0]
    if k == 'lit':
        return lit(it[1])
    if k == 're':
        return '/%s/' % it[1]
    if k in ('tok', 'ref'):
        return it[1]
    if k == 'opt':
        return _atom(it[1]) + '?'
    if k == 'star':
        return _atom(it[1]) + '*'
    if k == 'plus':
        return _atom(it[1]) + '+'
    if k == 'rep':
        return _atom(it[1]) + ('~%d' % it[2] if it[2] == it[3] else '~%d..%d' % (it[2], it[3]))
    if k == 'maybe':
        return '[' + alts_text(it[1]) + ']'
    if k == 'group':
        return '(' + alts_text(it[1]) + ')'
    if k == 'tmpl':
        return '%s{%s}' % (it[1], ', '.join(item_text(a) for a in it[2]))
    raise ValueError(it)


def _atom(it):
    # lark's syntax has no postfix operator on a postfix expression: (X?)* needs the parentheses
    if it[0] in ('opt', 'star', 'plus', 'rep'):
        return '(' + item_text(it) + ')'
    return item_text(it)


def seq_text(seq):
    return ' '.join(item_text(i) for i in seq)


def alts_text(alts):
    return ' | '.join(seq_text(s) for s in alts)


def rule_text(r):
    head = r.mod + r.name
    if r.params:
        head += '{%s}' % ', '.join(r.params)
    if r.prio is not None:
        head += '.%d' % r.prio
    alts = ['%s%s' % (seq_text(s), ' -> %s' % a if a else '') for s, a in r.alts]
    return '%s: %s' % (head, '\n    | '.join(alts))


def term_text(t):
    head = t.name + ('.%d' % t.prio if t.prio else '')
    return '%s: %s' % (head, ' | '.join(pat_text(p) for p in t.pats))


def to_lark(g):
    lines = [rule_text(r) for r in g.rules.values()]
    lines += [term_text(t) for t in g.terms.values()]
    lines += ['%%ignore %s' % n for n in g.ignore]
    if g.header:
        lines.append(g.header)
    return '\n'.join(lines) + '\n'


def items_of(seq_or_alts):
    """Iterate over every item (recursively) of a sequence."""
    for it in seq_or_alts:
        yield it
        k = it[0]
        if k in ('opt', 'star', 'plus', 'rep'):
            yield from items_of((it[1],))
        elif k in ('maybe', 'group'):
            for s in it[1]:
                yield from items_of(s)
        elif k == 'tmpl':
            yield from items_of(it[2])


def term_keys(g):
    """All terminal keys used by the rules: ('tok',NAME), ('lit',s), ('re',p)."""
    out = []
    for r in g.rules.values():
        for s, _ in r.alts:
            for it in items_of(s):
                if it[0] in ('tok', 'lit', 're') and it not in out:
                    out.append(it)
    for n in g.ignore:
        if ('tok', n) not in out:
            out.append(('tok', n))
    return out


def term_pats(g, key):
    """The patterns (kind, value, flags) a terminal key denotes."""
    if key[0] == 'tok':
        return g.terms[key[1]].pats
    if key[0] == 'lit':
        return (('str', key[1], ''),)
    return (('re', key[1], ''),)


# ---------------------------------------------------------------------------------------------------
# templates: our own instantiation (textual substitution of parameters), for the reference semantics

def _subst_item(it, env):
    k = it[0]
    if k == 'ref' and it[1] in env:
        return env[it[1]]
    if k in ('opt', 'star', 'plus'):
        return (k, _subst_item(it[1], env))
    if k == 'rep':
        return (k, _subst_item(it[1], env), it[2], it[3])
    if k in ('maybe', 'group'):
        return (k, tuple(tuple(_subst_item(x, env) for x in s) for s in it[1]))
    if k == 'tmpl':
        return (k, it[1], tuple(_subst_item(a, env) for a in it[2]))
    return it


def instantiate_templates(g):
    """Returns a template-free Grammar: every use name{args} becomes a reference to a rule called 'name{args}'."""
    templates = {r.name: r for r in g.rules.values() if r.params}
    if not templates:
        return g
    out = {}

    def conv_item(it):
        k = it[0]
        if k == 'tmpl':
            args = tuple(conv_item(a) for a in it[2])
            inst = '%s{%s}' % (it[1], ','.join(item_text(a) for a in args))
            if inst not in out:
                t = templates[it[1]]
                out[inst] = None        # reserve (recursion)
                env = dict(zip(t.params, args))
                alts = tuple((tuple(conv_item(_subst_item(x, env)) for x in s), al) for s, al in t.alts)
                out[inst] = Rule(inst, t.mod, t.prio, alts)
            return ('ref', inst)
        if k in ('opt', 'star', 'plus'):
            return (k, conv_item(it[1]))
        if k == 'rep':
            return (k, conv_item(it[1]), it[2], it[3])
        if k in ('maybe', 'group'):
            return (k, tuple(tuple(conv_item(x) for x in s) for s in it[1]))
        return it
    plain = []
    for r in g.rules.values():
        if r.params:
            continue
        plain.append(Rule(r.name, r.mod, r.prio, tuple((tuple(conv_item(x) for x in s), al) for s, al in r.alts)))
    return Grammar(plain + [r for r in out.values()], g.terms.values(), g.ignore, g.start)
