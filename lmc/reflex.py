"""Reference lexing: terminals as regular languages, the documented basic-lexer tiling, source coordinates.

Trusted base: CPython `re`, used one terminal at a time on *our* spelling of the pattern, through
fullmatch on every candidate end (so leftmost-first alternation order plays no role: `ends` is the regular
language of the pattern, not "what re.match happens to return").
"""
import re
from functools import lru_cache

FLAGMAP = {'i': re.I, 's': re.S, 'm': re.M, 'x': re.X, 'u': re.U, 'l': re.L}


@lru_cache(maxsize=4096)
def compile_pat(pat, bytes_mode=False, gflags=0):
    kind, value, flags = pat
    src = re.escape(value) if kind == 'str' else ('[%s-%s]' % (re.escape(value[0]), re.escape(value[1])) if kind == 'range' else value)
    fl = gflags
    for c in flags:
        fl |= FLAGMAP[c]
    if bytes_mode:
        return re.compile(src.encode('latin1'), fl)
    return re.compile(src, fl)


def ends(pats, text, i, lo=1):
    """All j >= i+lo such that text[i:j] is in the language of one of the patterns."""
    out = set()
    n = len(text)
    bm = isinstance(text, bytes)
    for p in pats:
        if p[0] == 'str' and not p[2]:
            v = p[1].encode('latin1') if bm else p[1]
            if len(v) >= lo and text.startswith(v, i):
                out.add(i + len(v))
            continue
        rx = compile_pat(p, bm)
        for j in range(i + lo, n + 1):
            if rx.fullmatch(text, i, j):
                out.add(j)
    return out


def longest(pats, text, i):
    e = ends(pats, text, i)
    return {max(e)} if e else set()


def re_first_match_end(pats, text, i):
    """What `re.match` returns for the terminal as Lark spells it (alternatives longest-first for Lark's own
    `|`, leftmost-first inside a raw regexp).  Only used to *classify* causes (finding #16), never as oracle."""
    best = None
    for p in pats:
        m = compile_pat(p, isinstance(text, bytes)).match(text, i)
        if m and m.end() > i and (best is None or m.end() > best):
            best = m.end()
    return best


def term_edges(pats, text, mode):
    """edges[i] = set of ends of the terminal at i.  mode: 'exact' (all matches) | 'longest'."""
    n = len(text)
    if mode == 'exact':
        return [ends(pats, text, i) for i in range(n + 1)]
    return [longest(pats, text, i) for i in range(n + 1)]


def ignore_closure(ign_edges, n):
    """reach[i] = positions reachable from i by zero or more ignored-terminal matches."""
    reach = [None] * (n + 1)
    for i in range(n, -1, -1):
        r = {i}
        for e in ign_edges:
            for j in e[i]:
                if j > i:
                    r |= reach[j]
        reach[i] = r
    return reach


# ---------------------------------------------------------------------------------------------------
# source coordinates

def linecol(buf, offset):
    """1-based line and column of `offset` in `buf` (str or bytes): the definition C06/C15 are judged by."""
    nl = b'\n' if isinstance(buf, bytes) else '\n'
    line = 1 + buf.count(nl, 0, offset)
    last = buf.rfind(nl, 0, offset)
    return line, offset - last      # last == -1 -> column = offset + 1


def end_linecol_dynamic(buf, end):
    """Dynamic-lexer family: end coordinate = coordinate of the last character, column + 1."""
    if end == 0:
        return 1, 1
    l, c = linecol(buf, end - 1)
    return l, c + 1


# ---------------------------------------------------------------------------------------------------
# the documented basic-lexer tiling (C07)

INF = 10 ** 9


class TDef:
    """A terminal for the reference lexer: name, kind ('str'|'re'), value, flags (string of letters), priority and
    *declared* maximal width (hand-annotated in the menus: len for strings, INF for unbounded regexps)."""

    def __init__(self, name, kind, value, flags='', prio=0, width=None):
        self.name, self.kind, self.value, self.flags, self.prio = name, kind, value, flags, prio
        self.width = len(value) if width is None else width
        self.pat = (kind, value, flags)

    def sort_key(self):
        return (-self.prio, -self.width, -len(self.value), self.name)

    def text(self):
        from .gram import pat_text
        return '%s%s: %s' % (self.name, '.%d' % self.prio if self.prio else '', pat_text(self.pat))


def lex_basic(tdefs, ignore, text, allowed=None):
    """-> ('ok', [(type, value, start)...]) | ('err', offset, tokens_so_far)
    At every position: the first terminal, in the documented order (higher priority, longer maximal width, longer
    pattern, name), that matches a non-empty string there; the keyword exception re-types the text of a regexp
    terminal that is exactly a same-priority string terminal.  `allowed(tokens_so_far)` optionally restricts the
    candidates (contextual lexer)."""
    order = sorted(tdefs, key=TDef.sort_key)
    bm = isinstance(text, bytes)
    out = []
    pos, n = 0, len(text)
    while pos < n:
        cands = order if allowed is None else [t for t in order if t.name in allowed(out) or t.name in ignore]
        hit = None
        for t in cands:
            m = compile_pat(t.pat, bm).match(text, pos)
            if m and m.end() > pos:
                hit = (t, m.end())
                break
        if hit is None:
            return ('err', pos, out)
        t, end = hit
        value = text[pos:end]
        typ = t.name
        if t.kind == 're':
            for s in cands:
                if s.kind == 'str' and s.prio == t.prio and compile_pat(s.pat, bm).fullmatch(value) \
                        and _re_matches_literal(t, s, bm):
                    typ = s.name
                    break
        if typ not in ignore:
            out.append((typ, value if not bm else value.decode('latin1'), pos))
        pos = end
    return ('ok', out)


def _re_matches_literal(retok, strtok, bm):
    lit = strtok.value.encode('latin1') if bm else strtok.value
    m = compile_pat(retok.pat, bm).match(lit)
    return bool(m) and m.end() == len(lit)
