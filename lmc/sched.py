"""Cooperative thread scheduler on sys.monitoring LINE events + preemption-bounded stateless DFS (DESIGN.md 2.6).

Exactly one of the harness threads runs at a time.  Every LINE event inside an instrumented code object is a
scheduling point: the callback (running in the thread that executes the line) consults the schedule and, if another
thread is chosen, releases that thread's semaphore and blocks on its own.  Enabled threads are offered in canonical
order (running thread first, then ascending ids); choosing index != 0 while the running thread is enabled costs one
preemption.  Thread start and thread end are cost-free choice points.
"""
import sys
import threading
import types

mon = sys.monitoring
TOOL = 4
WAIT = 60.0


class HarnessError(Exception):
    pass


def code_objects(objs):
    """Code objects (nested ones included) of functions / properties / classes given."""
    out = set()

    def add_code(c):
        if c in out:
            return
        out.add(c)
        for k in c.co_consts:
            if isinstance(k, types.CodeType):
                add_code(k)

    def add(o):
        if isinstance(o, types.CodeType):
            add_code(o)
        elif isinstance(o, (types.FunctionType, types.MethodType)):
            add_code(o.__code__)
        elif isinstance(o, property):
            for f in (o.fget, o.fset, o.fdel):
                if f is not None:
                    add(f)
        elif isinstance(o, (classmethod, staticmethod)):
            add(o.__func__)
        elif isinstance(o, type):
            for v in vars(o).values():
                if isinstance(v, (types.FunctionType, property, classmethod, staticmethod)):
                    add(v)
    for o in objs:
        add(o)
    return out


class Execution:
    def __init__(self, n):
        self.points = []        # (kind, running, enabled tuple)
        self.choices = []
        self.results = [None] * n


class Scheduler:
    def __init__(self, codes):
        """codes: iterable of code objects (every line is a scheduling point) or {code: set(lines)}."""
        self.lines = dict(codes) if isinstance(codes, dict) else None
        self.codes = list(codes)
        self.active = False
        try:
            mon.use_tool_id(TOOL, 'lmc-sched')
        except ValueError:
            pass
        mon.register_callback(TOOL, mon.events.LINE, self._on_line)
        for c in self.codes:
            mon.set_local_events(TOOL, c, mon.events.LINE)

    def close(self):
        for c in self.codes:
            mon.set_local_events(TOOL, c, 0)
        mon.register_callback(TOOL, mon.events.LINE, None)
        try:
            mon.free_tool_id(TOOL)
        except ValueError:
            pass

    # -- one execution under a schedule prefix
    def run(self, bodies, prefix):
        n = len(bodies)
        self.n = n
        self.sems = [threading.Semaphore(0) for _ in range(n)]
        self.done = [False] * n
        self.started = [False] * n
        self.ex = Execution(n)
        self.prefix = list(prefix)
        self.tid = {}
        self.error = None
        self.all_done = threading.Event()
        threads = [threading.Thread(target=self._main, args=(i, bodies[i]), daemon=True) for i in range(n)]
        self.active = True
        try:
            for t in threads:
                t.start()
            first = self._choose('start', None, tuple(range(n)))
            self.sems[first].release()
            if not self.all_done.wait(WAIT):
                raise HarnessError('execution did not finish (deadlock or a thread blocked outside the scheduler)')
            for t in threads:
                t.join(WAIT)
        finally:
            self.active = False
        if self.error:
            raise HarnessError(self.error)
        return self.ex

    def _choose(self, kind, running, enabled):
        i = len(self.ex.choices)
        k = self.prefix[i] if i < len(self.prefix) else 0
        if k >= len(enabled):
            self.error = 'schedule prefix diverged: choice %d of %d enabled at point %d' % (k, len(enabled), i)
            k = 0
        self.ex.points.append((kind, running, enabled))
        self.ex.choices.append(k)
        return enabled[k]

    def _main(self, i, body):
        self.tid[threading.get_ident()] = i
        if not self.sems[i].acquire(timeout=WAIT):
            return
        self.started[i] = True
        try:
            self.ex.results[i] = ('ok', body())
        except BaseException as e:
            self.ex.results[i] = ('exc', e)
        self.done[i] = True
        rest = tuple(j for j in range(self.n) if not self.done[j])
        if not rest:
            self.all_done.set()
            return
        nxt = self._choose('end', i, rest)
        self.sems[nxt].release()

    def _on_line(self, code, line):
        if not self.active:
            return
        if self.lines is not None and line not in self.lines[code]:
            return
        i = self.tid.get(threading.get_ident())
        if i is None or self.done[i]:
            return
        enabled = (i,) + tuple(j for j in range(self.n) if j != i and not self.done[j])
        if len(enabled) == 1:
            return
        nxt = self._choose('line', i, enabled)
        if nxt != i:
            self.sems[nxt].release()
            if not self.sems[i].acquire(timeout=WAIT):
                self.error = 'thread %d was never rescheduled' % i
                raise SystemExit


def preemptions(ex, upto=None):
    n = 0
    for (kind, running, enabled), k in list(zip(ex.points, ex.choices))[:upto]:
        if kind == 'line' and k != 0:
            n += 1
    return n


def explore(run, check, bound, max_schedules=None, first_filter=None, max_seconds=None):
    """Iterative context bounding, stateless DFS.  run(prefix) -> Execution; check(ex, prefix) is called for every
    complete execution.  Returns (schedules, capped)."""
    import time
    t0 = time.time()
    count = 0
    capped = False
    stack = [[]]
    while stack:
        if max_seconds and time.time() - t0 > max_seconds:
            capped = True
            break
        prefix = stack.pop()
        ex = run(prefix)
        count += 1
        check(ex, prefix)
        if max_schedules and count >= max_schedules:
            capped = bool(stack)
            break
        for i in range(len(prefix), len(ex.points)):
            kind, running, enabled = ex.points[i]
            cost = preemptions(ex, i) + (1 if kind == 'line' else 0)
            if cost > bound:
                continue
            for alt in range(1, len(enabled)):
                if first_filter is not None and not prefix and not first_filter(i, alt):
                    continue
                stack.append(ex.choices[:i] + [alt])
    return count, capped
