"""Deterministic, index-addressable enumeration families (DESIGN.md 3.2)."""
import itertools
from functools import lru_cache

from . import gram
from .gram import Rule, Term, Grammar

NT_NAMES = ('start', 'a', 'b')


@lru_cache(maxsize=None)
def _altsets(nsyms, A, L):
    seqs = []
    for n in range(L + 1):
        seqs.extend(itertools.product(range(nsyms), repeat=n))
    out = []
    for k in range(1, A + 1):
        out.extend(itertools.combinations(seqs, k))
    return out


class BNF:
    """BNF(k, sigma, A, L): non-terminals start,a[,b]; every non-terminal has 1..A distinct alternatives, each a
    sequence of 0..L symbols over N + sigma.  `A` may be a tuple giving the bound per non-terminal.
    `render` maps a terminal symbol to (item, [Term definitions])."""

    def __init__(self, k, sigma, A, L, render='lit', ignore=(), extra_terms=(), nt_names=None, mods=None):
        self.k, self.sigma = k, tuple(sigma)
        self.L = tuple(L) if isinstance(L, (tuple, list)) else (L,) * k
        self.A = tuple(A) if isinstance(A, (tuple, list)) else (A,) * k
        self.nts = tuple(nt_names or NT_NAMES[:k])
        self.nsyms = k + len(self.sigma)
        self.sets = [_altsets(self.nsyms, a, l) for a, l in zip(self.A, self.L)]
        self.size = 1
        for s in self.sets:
            self.size *= len(s)
        self.render, self.ignore, self.extra_terms = render, tuple(ignore), tuple(extra_terms)
        self.mods = mods or {}

    def __len__(self):
        return self.size

    def skeleton(self, idx):
        """-> tuple per non-terminal of tuple of alternatives (tuples of symbol numbers)."""
        out = []
        for s in reversed(self.sets):
            idx, r = divmod(idx, len(s))
            out.append(s[r])
        return tuple(reversed(out))

    def item(self, sym):
        if sym < self.k:
            return ('ref', self.nts[sym])
        t = self.sigma[sym - self.k]
        if self.render == 'lit':
            return ('lit', t)
        if self.render == 'tok':
            return ('tok', t.upper())
        return self.render[t][0]

    def grammar(self, idx):
        """Grammar number idx, or None if some non-terminal is unreachable from start."""
        sk = self.skeleton(idx)
        # reachability on the skeleton (cheap, before building objects)
        seen, todo = {0}, [0]
        while todo:
            for alt in sk[todo.pop()]:
                for s in alt:
                    if s < self.k and s not in seen:
                        seen.add(s)
                        todo.append(s)
        if len(seen) < self.k:
            return None
        rules = []
        for n, alts in enumerate(sk):
            name = self.nts[n]
            mod, prio = self.mods.get(name, ('', None))
            rules.append(Rule(name, mod, prio, tuple((tuple(self.item(s) for s in alt), None) for alt in alts)))
        terms = list(self.extra_terms)
        if self.render == 'tok':
            terms += [Term(t.upper(), (('str', t, ''),)) for t in self.sigma]
        elif self.render != 'lit':
            for t in self.sigma:
                for td in self.render[t][1]:
                    if td not in terms:
                        terms.append(td)
        return Grammar(rules, terms, self.ignore)

    def features(self, idx):
        """Cheap syntactic features of a skeleton used for the non-triviality rule."""
        sk = self.skeleton(idx)
        rec = any(s < self.k for alts in sk for alt in alts for s in alt)
        multi = any(len(alts) > 1 for alts in sk)
        empty = any(len(alt) == 0 for alts in sk for alt in alts)
        return rec, multi, empty


def slice_indices(size, k, r):
    """Residue class r mod k of range(size): a *slice* that is explored completely."""
    return range(r % k, size, k)


# ---------------------------------------------------------------------------------------------------
# EBNF(I, n): one start rule whose body is a sequence of <= n items of the menu, plus one helper rule `a`.

X, Y, A_ = ('tok', 'X'), ('tok', 'Y'), ('ref', 'a')


def ebnf_menu(atoms=(X, Y, A_)):
    m = []
    for t in atoms:
        m += [t, ('opt', t), ('star', t), ('plus', t), ('rep', t, 2, 2), ('rep', t, 1, 2), ('rep', t, 0, 2)]
    m += [
        ('maybe', ((X,),)), ('maybe', ((A_,),)), ('maybe', ((X, Y),)), ('maybe', ((X,), (Y, Y))),
        ('maybe', ((X, ('maybe', ((Y,),))),)), ('opt', ('group', ((X, Y),))), ('group', ((X,), (Y,))),
        ('star', ('group', ((X,), (Y,)))), ('plus', ('group', ((X, A_),))), ('opt', ('maybe', ((X,),))),
        ('star', ('opt', X)), ('plus', ('star', Y)), ('rep', ('opt', X), 0, 2), ('maybe', ((X,), ())),
        ('group', ((X, Y), (X,))), ('star', ('group', ((A_, Y),))), ('maybe', ((('opt', X), Y),)),
        ('rep', ('group', ((X,), (Y,))), 1, 2), ('maybe', ((('star', X),),)),
    ]
    return m


HELPERS = [
    ((('lit', 'z'),),),                     # a: "z"
    ((X,),),                                # a: X
    ((X, Y), (Y,)),                         # a: X Y | Y
    ((('opt', X),),),                       # a: X?
    ((('maybe', ((X,),)),),),               # a: [X]
    ((A_, X), (X,)),                        # a: a X | X
]

XY_TERMS = (Term('X', (('str', 'x', ''),)), Term('Y', (('str', 'y', ''),)))


class EBNF:
    def __init__(self, n, menu=None, helpers=None, terms=XY_TERMS, ignore=(), helper_name='a', helper_mod='', helper_prio=None, start_alts=None):
        self.menu = menu or ebnf_menu()
        self.helpers = helpers or HELPERS
        self.n = n
        self.bodies = []
        for k in range(n + 1):
            self.bodies.extend(itertools.product(range(len(self.menu)), repeat=k))
        self.size = len(self.bodies) * len(self.helpers)
        self.terms, self.ignore = tuple(terms), tuple(ignore)
        self.helper_name, self.helper_mod, self.helper_prio = helper_name, helper_mod, helper_prio
        self.start_alts = start_alts

    def __len__(self):
        return self.size

    def grammar(self, idx):
        b, h = divmod(idx, len(self.helpers))
        body = tuple(self.menu[i] for i in self.bodies[b])
        uses_a = any(it == A_ for it in gram.items_of(body))
        rules = [Rule('start', '', None, ((body, None),))]
        if uses_a:
            rules.append(Rule('a', self.helper_mod, self.helper_prio, tuple((s, None) for s in self.helpers[h])))
            if self.start_alts:     # extra competing alternatives of start (priority families)
                rules[0] = Rule('start', '', None, ((body, None),) + tuple(self.start_alts))
                rules += [Rule('b', '', 1, (((X,), None), ((X, Y), None), ((Y,), None)))]
        elif h != 0:
            return None         # helper unused: only count the grammar once
        return Grammar(rules, self.terms, self.ignore)


# ---------------------------------------------------------------------------------------------------
# SHAPE: EBNF bodies decorated with the tree-shaping features (C03, C06 meta, C11, C16, C19)

SX, SY, SZ, SW = ('tok', 'X'), ('tok', '_Y'), ('lit', 'z'), ('re', 'w')
SHAPE_TERMS = (Term('X', (('str', 'x', ''),)), Term('_Y', (('str', 'y', ''),)))


def shape_menu(a, SZ=SZ):
    """Items of the start body; `a` is the helper reference item (('ref','a') / ('ref','_a') / template use)."""
    m = []
    for t in (SX, a):
        m += [t, ('opt', t), ('star', t), ('plus', t), ('rep', t, 2, 2), ('rep', t, 1, 2), ('rep', t, 0, 2)]
    for t in (SY, SZ, SW):
        m += [t, ('opt', t)]
    m += [
        ('maybe', ((SX,),)), ('maybe', ((a,),)), ('maybe', ((SX, SY),)), ('maybe', ((SX,), (SY, SY))),
        ('maybe', ((SX, ('maybe', ((SZ,),))),)), ('maybe', ((SY,), (SZ, SX))), ('maybe', ((SX, ('maybe', ((a,),))),)),
        ('star', ('group', ((SX,), (SY, a)))), ('opt', ('group', ((SX, SY),))), ('group', ((SX,), (SZ,))),
        ('maybe', ((SW, SX),)), ('maybe', ((('opt', SX), SZ),)), ('opt', ('maybe', ((SX,),))),
        ('plus', ('group', ((SZ, a),))), ('maybe', ((SZ,),)), ('maybe', ((('rep', SX, 1, 2),),)),
        ('plus', SZ), ('star', SZ),
    ]
    return m


def shape_helpers(self_ref, SZ=SZ):
    """Helper bodies as (alternatives with alias): the alias variants are dropped for '_' spellings (not allowed)."""
    return [
        (((('plus', SZ), SX), None),),
        (((SX,), None),),
        (((SX, SZ), None), ((SY,), 'ali')),
        (((SZ, ('opt', SX)), None),),
        (((('maybe', ((SX,),)), SZ), None),),
        (((self_ref, SX), None), ((SX,), None)),
        (((SY, SX, SZ), 'ali'), ((SX, SX), None)),
        (((SW,), None), ((SX, SY), None)),
        (((SZ,), None), ((('maybe', ((SX, SX),)), SY), 'ali')),
    ]


class SHAPE:
    """index = ((body index) * n_helpers + helper) * n_spellings + spelling"""
    SPELL = (('a', ''), ('_a', ''), ('a', '?'), ('a', '!'), ('t', 'T'), ('_t', 'T'), ('a', '!?'), ('a', '?!'))    # 'T' = template t{p} used as t{X}

    def __init__(self, n, spellings=None, ignore=(), extra_terms=(), zlit='z', terms=None, extra_helpers=None):
        """zlit: the anonymous string literal of the menu; 'x' makes it coincide with the named terminal X (one
        terminal used by name -- kept -- and as a literal -- filtered)."""
        self.SZ = ('lit', zlit)
        self.spell = spellings or self.SPELL
        self.n = n
        nm = len(shape_menu(('ref', 'a')))
        self.bodies = []
        for k in range(1, n + 1):
            self.bodies.extend(itertools.product(range(nm), repeat=k))
        self.extra_helpers = extra_helpers
        self.nh = len(self._helpers(('ref', 'a')))
        self.size = len(self.bodies) * self.nh * len(self.spell)
        self.ignore, self.extra_terms = tuple(ignore), tuple(extra_terms)
        self.terms = tuple(terms) if terms else SHAPE_TERMS

    def _helpers(self, self_ref):
        hs = shape_helpers(self_ref, self.SZ)
        if self.extra_helpers:
            hs = hs + self.extra_helpers(self_ref, self.SZ)
        return hs

    def __len__(self):
        return self.size

    def grammar(self, idx):
        idx, sp = divmod(idx, len(self.spell))
        b, h = divmod(idx, self.nh)
        name, mod = self.spell[sp]
        if mod == 'T':
            aitem = ('tmpl', name, (SX,))
            self_ref = ('tmpl', name, (('ref', 'p'),))
        else:
            aitem = self_ref = ('ref', name)
        menu = shape_menu(aitem, self.SZ)
        body = tuple(menu[i] for i in self.bodies[b])
        uses = any(it == aitem for it in gram.items_of(body))
        if not uses:
            if h or sp:
                return None
            rules = [Rule('start', '', None, ((body, None),))]
            return Grammar(rules, self.terms + self.extra_terms, self.ignore)
        alts = self._helpers(self_ref)[h]
        if name.startswith('_'):
            if any(al for _, al in alts):
                return None         # aliases are not allowed on inlined rules
        if mod == 'T':
            # template: the parameter p stands where the helper bodies have X in first position of each alternative
            alts = tuple((tuple((('ref', 'p') if (i == 0 and x == SX) else x) for i, x in enumerate(s)), al) for s, al in alts)
            helper = Rule(name, '', None, alts, ('p',))
        else:
            helper = Rule(name, mod, None, alts)
        rules = [Rule('start', '', None, ((body, None),)), helper]
        return Grammar(rules, self.terms + self.extra_terms, self.ignore)


# ---------------------------------------------------------------------------------------------------
# LISTS: start: u v [...] where u and v are list-like helper rules (empty / recursive / EBNF), inlined or not.
# Targets the in-place child-list reuse of the LALR tree builder and empty reductions.

def list_shapes(me, t):
    X = ('tok', t)
    R = ('ref', me)
    return [
        (((), None), ((R, X), None)),            # u: | u X
        (((), None), ((X, R), None)),            # u: | X u
        (((X,), None), ((R, X), None)),          # u: X | u X
        (((('star', X),), None),),               # u: X*
        (((('plus', X),), None),),               # u: X+
        (((('opt', X),), None),),                # u: X?
        (((), None),),                           # u:
        (((), None), ((R, X, X), None)),         # u: | u X X
    ]


class LISTS:
    SPELLS = (('', ''), ('_', ''), ('', '?'))
    BODIES = (('u', 'v'), ('u', 'v', 'X'), ('v', 'u'), ('u', 'u'), ('X', 'u', 'v'), ('u', 'Y', 'v'), ('w', 'v'))

    def __init__(self):
        self.ns = len(list_shapes('u', 'X'))
        self.size = (self.ns * len(self.SPELLS)) ** 2 * len(self.BODIES)

    def __len__(self):
        return self.size

    def grammar(self, idx):
        idx, bi = divmod(idx, len(self.BODIES))
        per = self.ns * len(self.SPELLS)
        ui, vi = divmod(idx, per)
        rules = []
        names = {}
        for key, i, t in (('u', ui, 'X'), ('v', vi, 'Y')):
            sh, sp = divmod(i, len(self.SPELLS))
            pre, mod = self.SPELLS[sp]
            name = pre + key
            names[key] = name
            rules.append(Rule(name, mod, None, tuple(list_shapes(name, t)[sh])))
        body = self.BODIES[bi]
        items = []
        for b in body:
            if b in ('X', 'Y'):
                items.append(('tok', b))
            elif b == 'w':
                items.append(('ref', 'w'))
            else:
                items.append(('ref', names[b]))
        start = [Rule('start', '', None, ((tuple(items), None),))]
        if 'w' in body:     # w: an empty non-inlined rule in front ("head")
            start.append(Rule('w', '', None, (((), None),)))
            items_u = names['u']
            start[0] = Rule('start', '', None, ((tuple([('ref', 'w'), ('ref', names['u']), ('ref', names['v'])]), None),))
        return Grammar(start + rules, XY_TERMS)
