"""Discovery of shared-state writers and readers for the thread explorer (DESIGN.md 2.6).

A single-threaded run of an operation is monitored with PY_RETURN / PY_YIELD events for all lark code; after every
return the object graph reachable from the Lark instance (and lark's mutable module globals) is snapshotted as a flat
{path: leaf} map.  A function at whose return the snapshot differs from the previous one is a *writer*; the attribute
names on the changed paths are the shared attributes.  *Readers* are all lark code objects whose bytecode loads or
stores one of those attribute names.  The scheduler places line-level scheduling points on exactly the source lines
of writers/readers that touch a shared attribute (plus each such function's first line).
"""
import dis
import re
import sys
import types

mon = sys.monitoring
TOOL = 3
ATOMS = (int, float, str, bytes, bool, type(None), complex)


def lark_dir():
    import lark
    import os
    return os.path.dirname(os.path.abspath(lark.__file__))


def _key(x):
    if isinstance(x, ATOMS):
        return ('v', x if not isinstance(x, float) else repr(x))
    if isinstance(x, re.Pattern):
        return ('re', x.pattern, x.flags)
    if isinstance(x, (types.FunctionType, types.BuiltinFunctionType, types.MethodType, type, types.ModuleType,
                      types.CodeType, property, classmethod, staticmethod)):
        return ('f', getattr(x, '__qualname__', None) or getattr(x, '__name__', None) or type(x).__name__)
    return ('id', id(x))


def snapshot(roots, limit=300000):
    """Identity-based snapshot: {id(obj): shallow description} for every mutable object reachable from the roots, plus
    {id(obj): (parent id, attribute name or None)} so that a changed container can be traced to the attribute it hangs
    from.  Independent of traversal order, so only real writes show up as differences."""
    shallow, parent = {}, {}
    stack = []
    for name, obj in roots:
        k = _key(obj)
        if k[0] == 'id':
            parent.setdefault(id(obj), (None, name))
            stack.append(obj)
    while stack and len(shallow) < limit:
        x = stack.pop()
        i = id(x)
        if i in shallow:
            continue
        kids = []
        if isinstance(x, dict):
            desc = ['dict']
            for n, (k, v) in enumerate(x.items()):
                kk, vk = _key(k), _key(v)
                desc.append((kk, vk))
                kids += [(k, None), (v, None)]
        elif isinstance(x, (list, tuple)):
            desc = [type(x).__name__] + [_key(v) for v in x]
            kids = [(v, None) for v in x]
        elif isinstance(x, (set, frozenset)):
            desc = [type(x).__name__] + sorted((_key(v) for v in x), key=repr)
            kids = [(v, None) for v in x]
        else:
            desc = ['obj', type(x).__name__]
            attrs = []
            d = getattr(x, '__dict__', None)
            if isinstance(d, dict):
                attrs += list(d.items())
            for cls in type(x).__mro__:
                sl = getattr(cls, '__slots__', ()) or ()
                for k in ((sl,) if isinstance(sl, str) else sl):
                    if isinstance(k, str) and not k.startswith('__'):
                        try:
                            attrs.append((k, getattr(x, k)))
                        except AttributeError:
                            pass
            for k, v in attrs:
                desc.append((k, _key(v)))
                kids.append((v, k))
        shallow[i] = tuple(desc)
        for v, attr in kids:
            if _key(v)[0] == 'id':
                parent.setdefault(id(v), (i, attr))
                stack.append(v)
    return shallow, parent


def diff_attrs(a, b):
    """Names of the attributes through which pre-existing objects were modified between two snapshots."""
    (sa, pa), (sb, pb) = a, b
    names = set()
    for i in sa.keys() & sb.keys():
        if sa[i] == sb[i]:
            continue
        da, db = sa[i], sb[i]
        if da[0] == 'obj' and db[0] == 'obj':
            ea, eb = dict(da[2:]), dict(db[2:])
            names |= {k for k in set(ea) | set(eb) if ea.get(k) != eb.get(k)}
        else:
            j = i
            for _ in range(50):          # climb to the attribute this container hangs from
                pj = pb.get(j) or pa.get(j)
                if pj is None:
                    break
                if pj[1] is not None:
                    names.add(pj[1])
                    break
                j = pj[0]
    return names


def module_globals_roots():
    roots = []
    for name, m in list(sys.modules.items()):
        if name == 'lark' or name.startswith('lark.'):
            for k, v in list(vars(m).items()):
                if isinstance(v, (dict, list, set)) and not k.startswith('__'):
                    roots.append(('%s.%s' % (name, k), v))
                elif isinstance(v, type) and v.__module__ == name:
                    for ck, cv in list(vars(v).items()):
                        if isinstance(cv, (dict, list, set)) and not ck.startswith('__'):
                            roots.append(('%s.%s.%s' % (name, v.__name__, ck), cv))
                elif isinstance(v, types.FunctionType) and hasattr(v, 'cache'):
                    roots.append(('%s.%s.cache' % (name, k), getattr(v, 'cache')))
    return roots


class Discovery:
    """Monitor `ops` (callables) run sequentially; report writers per op."""

    def __init__(self, instance_roots, stride=8):
        """stride: the object graph is snapshotted at every stride-th return event (and at the end of every operation);
        a write is attributed to the functions that returned inside the window in which it was first seen."""
        self.roots_fn = instance_roots
        self.ldir = lark_dir()
        self.stride = stride

    def run(self, ops):
        writers = [dict() for _ in ops]     # per op: code -> set(attr names)
        events = [0]
        state = {'op': 0, 'snap': None}

        def roots():
            return list(self.roots_fn()) + module_globals_roots()

        def on_return(code, offset, retval):
            if not code.co_filename.startswith(self.ldir):
                return
            events[0] += 1
            window.append(code)
            if events[0] % self.stride:
                return
            flush()

        window = []

        def flush():
            s = snapshot(roots())
            if s[0] != state['snap'][0]:
                names = diff_attrs(state['snap'], s)
                for c in window:
                    if touching_lines(c, names):
                        writers[state['op']].setdefault(c, set()).update(names)
                writers[state['op']].setdefault(None, set()).update(names)
                state['snap'] = s
            del window[:]
        try:
            mon.use_tool_id(TOOL, 'lmc-discover')
        except ValueError:
            pass
        mon.register_callback(TOOL, mon.events.PY_RETURN, on_return)
        mon.register_callback(TOOL, mon.events.PY_YIELD, on_return)
        results = []
        try:
            for i, op in enumerate(ops):
                state['op'] = i
                state['snap'] = snapshot(roots())
                before = state['snap']
                mon.set_events(TOOL, mon.events.PY_RETURN | mon.events.PY_YIELD)
                try:
                    op()
                except Exception:
                    pass
                finally:
                    mon.set_events(TOOL, 0)
                flush()
                after = snapshot(roots())
                results.append({'changed_overall': before[0] != after[0], 'attrs_overall': sorted(diff_attrs(before, after)),
                                'writers': {(c.co_qualname if c else '*'): sorted(n) for c, n in writers[i].items()}})
        finally:
            mon.set_events(TOOL, 0)
            mon.register_callback(TOOL, mon.events.PY_RETURN, None)
            mon.register_callback(TOOL, mon.events.PY_YIELD, None)
            try:
                mon.free_tool_id(TOOL)
            except ValueError:
                pass
        self.return_events = events[0]
        return writers, results


def all_lark_codes():
    """Every code object defined in lark modules (functions, methods, properties, nested)."""
    from .sched import code_objects
    objs = []
    for name, m in list(sys.modules.items()):
        if name == 'lark' or name.startswith('lark.'):
            for v in list(vars(m).values()):
                if isinstance(v, types.FunctionType) and v.__module__ == name:
                    objs.append(v)
                elif isinstance(v, type) and v.__module__ == name:
                    objs.append(v)
    return code_objects(objs)


def touching_lines(code, attrs):
    """Source lines of `code` whose bytecode loads/stores one of the attribute names."""
    lines = set()
    for ins in dis.get_instructions(code):
        if ins.opname in ('LOAD_ATTR', 'STORE_ATTR', 'DELETE_ATTR', 'LOAD_METHOD') and ins.argval in attrs:
            if ins.positions and ins.positions.lineno:
                lines.add(ins.positions.lineno)
    return lines


MUTATORS = {'append', 'extend', 'insert', 'pop', 'remove', 'clear', 'add', 'update', 'setdefault', 'discard', 'popitem', 'appendleft', 'popleft', 'sort', 'reverse'}


def instrumentation(writers_per_op, extra_attrs=()):
    """-> {code: set(lines)}: for every lark code object touching a shared attribute: those lines + its first line."""
    attrs = set(extra_attrs)
    wcodes = set()
    for w in writers_per_op:
        for c, names in w.items():
            attrs |= names
            if c is not None:
                wcodes.add(c)
    plan = {}
    for c in all_lark_codes():
        ls = touching_lines(c, attrs)
        if ls or c in wcodes:
            all_lines = {i.positions.lineno for i in dis.get_instructions(c) if i.positions and i.positions.lineno}
            ins = list(dis.get_instructions(c))
            stores = any(i.opname in ('STORE_ATTR', 'DELETE_ATTR') and i.argval in attrs for i in ins) or (
                ls and any(i.opname in ('STORE_SUBSCR', 'DELETE_SUBSCR') or (i.opname in ('LOAD_ATTR', 'LOAD_METHOD') and i.argval in MUTATORS) for i in ins))
            if stores or c in wcodes:
                plan[c] = all_lines                 # a function that writes shared state: every line is a scheduling point
            else:
                plan[c] = ls | {min(all_lines, default=c.co_firstlineno)}
    return plan, attrs
