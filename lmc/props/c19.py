"""C19 -- Reconstructor output re-parses to the same tree (DESIGN.md section 4, C19)."""
from lark import Lark, Tree
from lark.reconstruct import Reconstructor
from lark.exceptions import GrammarError

from .. import families, gram, refsem, larkio, util, obs
from ..famrun import FamRun, new_res
from ..families import SX, SY, SW

ID = 'C19'
LEVEL = 'exploration'
RULE = ('every grammar of the SHAPE family (helper spelled a/_a/?a/!a, aliases, filtered string terminals, extra slice-/sum-like '
        '?rule helpers) that lies in the supported class by a syntactic test of ours -- maybe_placeholders off, accepted by LALR in '
        'strict mode (conflict-free, hence unambiguous), no useless rule, every filtered terminal a string, every expansion of every '
        'rule keeps at least one unfiltered symbol other than the rule itself -- with %ignore " ", plus a menu of 3..4-rule '
        'expression / list / nesting grammars; parsers lalr and earley; every accepted input up to the bound: '
        'Reconstructor(p).reconstruct(p.parse(w)) must be accepted and parse to a tree equal in labels, token types and values. All '
        'inputs of one grammar go through ONE Reconstructor in enumeration order and again in reverse order (its matchers are '
        'cached). Non-trivial = accepted input with >= 2 tokens; distinct by construction')
ASSUMPTIONS = ['class membership is decided by our syntactic test + LALR strict mode, so a failure cannot be blamed on an unsupported grammar',
               'trees are compared on labels, token types and values (not positions)']
DEADLINE = {'quick': 900, 'thorough': 3 * 3600}
WS = gram.Term('WS', (('str', ' ', ''),))


def extra_helpers(self_ref, SZ):
    return [
        (((SX, SZ, SX), None), ((SX, SZ, SX, SZ, SX), None), ((SW,), None)),          # slice-like
        (((self_ref, SZ, SX), None), ((SX,), None)),                                    # sum-like (left recursive)
        (((SX, SX, SX), None), ((SX,), None)),
        (((SY, SX, SY), None), ((SW, SZ, SW), None)),
    ]


def fam(n):
    return families.SHAPE(n, spellings=(('a', ''), ('_a', ''), ('a', '?'), ('a', '!')), ignore=('WS',), extra_terms=(WS,), extra_helpers=extra_helpers)


def box(name):
    if name == 's1':
        return dict(fam=fam(1), alpha='xyzw ', chunk=16)
    if name == 's2':
        return dict(fam=fam(2), alpha='xyzw', chunk=32)
    raise KeyError(name)


TIERS = {'quick': [('s1', 1, 4), ('s2', 16, 4)], 'thorough': [('s1', 1, 5), ('s2', 1, 4)]}

MENU = [
    ('items-groups', 'start: item+ group*\ngroup: "(" item+ ")"\n?item: X | item "z" X\nX: "x"\n%ignore " "\n', 'x(z)', 7),
    ('slices', 'start: (a ";")+\n?a: X | X ":" X | X ":" X ":" X\nX: "x"\n%ignore " "\n', 'x:;', 7),
    ('calc', 'start: sum\n?sum: prod | sum "+" prod\n?prod: atom | prod "*" atom\n?atom: X | "(" sum ")"\nX: "x"\n%ignore " "\n', 'x+*()', 6),
    ('pairs', 'start: pair ("," pair)*\npair: X ":" val\n?val: X | "[" val ("," val)* "]" | "[" "]" -> empty\nX: "x"\n%ignore " "\n', 'x:,[]', 7),
    ('sigil', 'start: (REF NAME ";" | NAME REF ";")+\nREF: /\\$[a-c]+/\nNAME: /[a-c]+/\n%ignore " "\n', 'SIGIL', 0),
    ('term-subs', 'start: item (_SEP item)* _END?\nitem: X | "(" start ")"\nX: "x"\n_SEP: /[,;]/\n_END: /[.!]/\n%ignore " "\n', 'x,;.()', 6),
    ('words-numbers', 'start: stmt+\nstmt: "move" NAME NUMBER ";" | "goto" NUMBER NUMBER ";" | "wait" NUMBER NAME? ";"\nNAME: /[a-c]+/\nNUMBER: /[0-9]+/\n%ignore " "\n', 'WORDS', 0),
    ('long-list', 'start: item*\nitem: X | "(" X ")"\nX: "x"\n%ignore " "\n', 'LONG', 0),
    # rules and aliases named like attributes of the reconstructor's internal transformer
    ('rule-names', 'start: (tokens | term_subs | transform | other)+\ntokens: X "," X\nterm_subs: "(" X ")"\ntransform: X ":" -> transform_tree\n'
                   '    | X ";"\nother: X "z" -> tokens\nX: "x"\n%ignore " "\n', 'x,():;z', 6),
    # a keep-all rule with an optional part next to a named filtered terminal
    ('keep-all-opt', 'start: stmt+\n!stmt: X ["=" X] _SEMI | "(" X _SEMI? ")"\nX: "x"\n_SEMI: ";"\n%ignore " "\n', 'x=;()', 7),
    # equal kept symbols in alternatives that are not adjacent; one alias on alternatives that are not adjacent
    ('separated-twins', 'start: decl+\ndecl: "v" X ";" | "c" X "=" val ";" | "l" X ";"\n?val: X -> lit | "(" X ")" -> par | "z" -> lit\nX: "x"\n%ignore " "\n', 'vclx=;(z)', 5),
    # case-insensitive keyword literals next to a case-sensitive identifier regexp; inputs spell the keywords in other cases
    ('kw-flags', 'start: "select"i NAME+ "from"i NAME+ ("where"i NAME)?\nNAME: /[a-z]+/\n%ignore " "\n', 'KWF', 0),     # lalr only: under the dynamic lexer a keyword is also a NAME
    # a cycle of ?rules entered in its middle by an aliased alternative
    ('calc-neg', 'start: expr\n?expr: term | expr "+" term\n?term: atom | term "*" atom\n?atom: X | "(" expr ")" | "-" atom -> neg\nX: "x"\n%ignore " "\n', 'x+*()-', 5),
    ('kw', 'start: stmt+\nstmt: "if" NAME "then" stmt -> cond | NAME "=" NAME ";" -> assign\nNAME: /[a-c]/\n%ignore " "\n', None, 0),
]
SIGIL_INPUTS = ['$a b;', 'a $b;', '$ab c;$c a;', 'ab $c; $a bc;']
WORDS_INPUTS = ['move a 1;', 'goto 3 4;', 'wait 10 ab; move ab 10; goto 1 22;', 'wait 7;']
LONG_INPUTS = ['x ' * 40, '(x) x ' * 750, 'x ' * 2500]
KWF_INPUTS = ['select a from t', 'SELECT a FROM t', 'Select ab c From c d Where d', 'select x FROM y z where z', 'SELECT a b FROM t u WHERE c']
KW_INPUTS = ['a=b;', 'if a then b=c;', 'a=b; if c then if a then b=b; c=a;', 'if a then if b then a=c;']


def in_class(g):
    """Our syntactic membership test (besides LALR strict mode, tested on the real parser)."""
    if refsem.productive(g) != set(g.rules) or refsem.reachable(g) != set(g.rules):
        return False
    for r in g.rules.values():
        helpers = []
        exps = []
        for seq, alias in r.alts:
            try:
                exps += refsem._expansions(seq, False, helpers)
            except refsem.TooAmbiguous:
                return False
        for body in helpers:
            exps += body
        for e in exps:
            kept = [s for s in e if (s[0] == 'ref' and s[1] != r.name) or (s[0] == 'tok' and not s[1].startswith('_')) or s[0] == 're' or s[0] == 'H']
            if not kept:
                return False
    return True


def roundtrip(p, rec, w, named):
    t1 = p.parse(w)
    text2 = rec.reconstruct(t1)
    t2 = p.parse(text2)
    return obs.canon(t1), text2, obs.canon(t2)


TERM_SUBS = {'term-subs': {'_SEP': lambda sym: ';', '_END': lambda sym: '!'}}      # filtered *regexp* terminals need term_subs


def check_parser(gtext, parser, inputs, res, cfg, only=None):
    r = larkio.build(gtext, parser=parser, maybe_placeholders=False)
    res['evals'] += 1
    if r[0] != 'ok':
        res['counters']['unsupported: %s refuses the grammar' % parser] += 1
        return
    p = r[1]
    accepted = [w for w in inputs if larkio.parse(p, w)[0] == 'ok']
    if not accepted:
        return
    for order in ('forward', 'reverse'):
        if only and only['order'] != order:
            continue
        rc = util.timed(lambda: Reconstructor(p, TERM_SUBS.get(cfg.get('menu'))), 20)
        if rc[0] != 'ok':
            res['viol'].append({'kind': 'reconstructor-construction', 'cause': 'construction', 'case': cfg, 'expected': 'constructed', 'observed': repr(rc[1])[:200]})
            return
        seq = accepted if order == 'forward' else accepted[::-1]
        for i, w in enumerate(seq):
            rt = util.timed(lambda: roundtrip(p, rc[1], w, None), 20)
            res['evals'] += 1
            if len(w.replace(' ', '')) >= 2:
                res['nontrivial'] += 1
            case = dict(cfg, parser=parser, order=order, input=w, inputs_before=seq[:i])
            if rt[0] != 'ok':
                res['viol'].append({'kind': 'reconstruct-fails', 'cause': 'reconstruct', 'case': case, 'expected': 'text that re-parses to the same tree',
                                    'observed': repr(rt[1])[:300]})
            elif rt[1][0] != rt[1][2]:
                res['viol'].append({'kind': 'reparse-differs', 'cause': 'roundtrip', 'case': case, 'expected': rt[1][0], 'observed': {'text': rt[1][1], 'tree': rt[1][2]}})
            elif len(res['samples']) < 2 and len(w) >= 3:
                res['samples'].append({'grammar': gtext, 'parser': parser, 'input': w, 'reconstructed': rt[1][1]})


def check(g, gi, boxname, b, inputs, res, only=None):
    if not in_class(g):
        res['counters']['outside the supported class (syntactic test)'] += 1
        return
    gtext = g.text()
    rs = larkio.build(gtext, parser='lalr', strict=True, maybe_placeholders=False)
    if rs[0] != 'ok':
        res['counters']['outside the supported class (LALR strict mode refuses: conflict / collision)'] += 1
        return
    res['counters']['grammars in the supported class'] += 1
    cfg = {'box': boxname, 'gidx': gi, 'grammar': gtext}
    if only:
        inputs = list(only['inputs_before']) + [only['input']]
    for parser in ('lalr', 'earley'):
        if only and only['parser'] != parser:
            continue
        check_parser(gtext, parser, inputs, res, cfg, only)


_run = FamRun(box, TIERS, check, chunk=24)


def plan(tier, seed):
    return [('fam',) + it for it in _run.plan(tier, seed)] + [('menu', i, tier) for i in range(len(MENU))]


def bounds(tier, seed):
    return {'families': _run.bounds(tier, seed), 'menu': [(m[0], m[3] + (1 if tier == 'thorough' else 0)) for m in MENU]}


def work(item):
    if item[0] == 'fam':
        return _run.work(item[1:])
    res = new_res()
    name, gtext, alpha, L = MENU[item[1]]
    inputs = KW_INPUTS if alpha is None else KWF_INPUTS if alpha == 'KWF' else SIGIL_INPUTS if alpha == 'SIGIL' else WORDS_INPUTS if alpha == 'WORDS' else LONG_INPUTS if alpha == 'LONG' else list(util.strings(alpha, L + (1 if item[2] == 'thorough' else 0)))
    for parser in (('lalr',) if name == 'kw-flags' else ('lalr', 'earley')):
        check_parser(gtext, parser, inputs, res, {'menu': name, 'grammar': gtext, 'tier': item[2]})
    res['counters'] = dict(res['counters'])
    return res


def replay(case):
    if 'menu' in case:
        res = new_res()
        check_parser(case['grammar'], case['parser'], list(case['inputs_before']) + [case['input']], res,
                     {'menu': case['menu'], 'grammar': case['grammar'], 'tier': case['tier']}, only=dict(case, order='forward'))
        return [v for v in res['viol'] if v['case']['input'] == case['input']]
    return [v for v in _run.replay(case) if v['case']['input'] == case['input']]
