"""C16 -- embedded transformer equals transforming afterwards; the four Transformer variants agree."""
import itertools

from lark import Lark, Tree, Token, Transformer, v_args
from lark.visitors import Transformer_NonRecursive, Transformer_InPlace, Transformer_InPlaceRecursive
from lark.exceptions import UnexpectedInput, GrammarError, VisitError

from .. import families, gram, larkio, util, obs
from ..famrun import FamRun, new_res

ID = 'C16'
LEVEL = 'exploration'
RULE = ('Part 1: every LALR-acceptable grammar of the SHAPE family x keep_all_tokens x every input up to the bound x generated pure '
        'transformer (a callback returning an injective tagged tuple for every named rule, alias, template and named terminal that '
        'can appear in the tree; variants plain / v_args(inline) / v_args(tree) / callbacks on a subset of names / token callbacks '
        'on-off) x 4 base classes: Lark(g, parser=lalr, transformer=T()).parse(w) must equal T().transform(Lark(g).parse(w)). '
        'Part 2: every tree with <= 4 nodes (thorough 5) over 2 labels, 2 token types and None leaves x callback variants: the four '
        'base classes must return equal results and call each node\'s callback exactly once, after all callbacks of its descendants. '
        'Non-trivial = accepted input whose tree has at least one callback invocation (part 1), tree with >= 2 internal nodes (part 2)')
ASSUMPTIONS = ['callbacks are pure and injective (tagged tuples), __default__/__default_token__ untouched, no Discard, no meta arguments (as the property states)',
               'post-hoc transform of the plain parse is the reference for the embedded transformer']
DEADLINE = {'quick': 900, 'thorough': 3 * 3600}

BASES = {'Transformer': Transformer, 'Transformer_NonRecursive': Transformer_NonRecursive,
         'Transformer_InPlace': Transformer_InPlace, 'Transformer_InPlaceRecursive': Transformer_InPlaceRecursive}
RULE_NAMES = ('start', 'a', 'ali', 't')
TOK_NAMES = ('X', '_Y')
# toknone: the callback of X returns None; rulenone: the callbacks of the rules a / ali return None
VARIANTS = ('plain', 'inline', 'tree', 'subset', 'notok', 'toknone', 'rulenone')


def make_transformer(base, variant, log=None, visit_tokens=True):
    """A fresh pure transformer class instance."""
    ns = {}

    def rule_cb(name):
        if variant == 'inline':
            @v_args(inline=True)
            def f(self, *children):
                if log is not None:
                    log.append(name)
                return ('node', name, tuple(children))
        elif variant == 'tree':
            @v_args(tree=True)
            def f(self, tree):
                if log is not None:
                    log.append(name)
                return ('node', name, str(tree.data), tuple(tree.children))
        elif variant == 'rulenone' and name in ('a', 'ali'):
            def f(self, children):
                if log is not None:
                    log.append(name)
                return None
        else:
            def f(self, children):
                if log is not None:
                    log.append(name)
                return ('node', name, tuple(children))
        return f

    def tok_cb(name):
        def f(self, t):
            if log is not None:
                log.append(name)
            if variant == 'toknone' and name == 'X':
                return None
            return ('tok', name, str(t))
        return f
    names = RULE_NAMES if variant != 'subset' else ('a', 'ali')
    for n in names:
        ns[n] = rule_cb(n)
    if variant != 'notok':
        for n in TOK_NAMES:
            ns[n] = tok_cb(n)
    return type('T_%s_%s' % (base, variant), (BASES[base],), ns)(visit_tokens=visit_tokens)


def canon(x):
    if isinstance(x, tuple):
        return tuple(canon(y) for y in x)
    if isinstance(x, list):
        return ('list',) + tuple(canon(y) for y in x)
    return obs.canon(x)


def box(name):
    if name == 's1':
        return dict(fam=families.SHAPE(1), alpha='xyzw', chunk=10, no_inputs=False)
    if name == 's2':
        return dict(fam=families.SHAPE(2), alpha='xyzw', chunk=24)
    raise KeyError(name)


TIERS = {'quick': [('s1', 1, 3), ('s2', 64, 3)], 'thorough': [('s1', 1, 4), ('s2', 4, 3)]}


def check(g, gi, boxname, b, inputs, res, only=None):
    gtext = g.text()
    for keep_all in (False, True):
        r = larkio.build(gtext, parser='lalr', keep_all_tokens=keep_all)
        res['evals'] += 1
        if r[0] != 'ok':
            res['counters']['unsupported: lalr refuses the grammar'] += 1
            continue
        plain = r[1]
        trees = {}
        for w in inputs:
            pr = larkio.parse(plain, w)
            if pr[0] == 'ok' and isinstance(pr[1], Tree):
                trees[w] = pr[1]
        if not trees:
            continue
        for base in BASES:
            for variant in VARIANTS:
                if only and (only['base'], only['variant'], only['keep_all_tokens']) != (base, variant, keep_all):
                    continue
                re_ = larkio.build(gtext, parser='lalr', keep_all_tokens=keep_all, transformer=make_transformer(base, variant))
                res['evals'] += 1
                cfg = {'box': boxname, 'gidx': gi, 'grammar': gtext, 'keep_all_tokens': keep_all, 'base': base, 'variant': variant}
                if re_[0] != 'ok':
                    res['viol'].append({'kind': 'embedded-construction', 'cause': 'construction', 'case': cfg, 'expected': 'constructed', 'observed': repr(re_[1])[:200]})
                    continue
                for w, tree in trees.items():
                    if only and only.get('input') != w:
                        continue
                    emb = util.timed(lambda: re_[1].parse(w))
                    # the post-hoc transformer works on a fresh copy of the plain tree (in-place variants mutate their input)
                    post = util.timed(lambda: make_transformer(base, variant).transform(larkio.parse(plain, w)[1]))
                    res['evals'] += 2
                    res['nontrivial'] += 1
                    e = ('ok', canon(emb[1])) if emb[0] == 'ok' else (emb[0], type(emb[1]).__name__, str(getattr(emb[1], 'orig_exc', emb[1]))[:80])
                    p = ('ok', canon(post[1])) if post[0] == 'ok' else (post[0], type(post[1]).__name__, str(getattr(post[1], 'orig_exc', post[1]))[:80])
                    if e != p:
                        cause = 'embedded-vs-posthoc'
                        if base == 'Transformer_InPlace' and variant in ('plain', 'subset', 'notok', 'toknone', 'rulenone'):
                            cause = 'inplace-embedded-undecorated'
                        res['viol'].append({'kind': 'embedded-differs-from-posthoc', 'cause': cause, 'case': dict(cfg, input=w),
                                            'expected': p, 'observed': e})
                    elif len(res['samples']) < 2 and len(w) >= 2 and e[0] == 'ok':
                        res['samples'].append({'grammar': gtext, 'keep_all_tokens': keep_all, 'base': base, 'variant': variant, 'input': w, 'result': repr(e[1])[:200]})


_run = FamRun(box, TIERS, check, chunk=16)


# --------------------------------------------------------------------------------------------------- part 2: all small trees

def small_trees(max_nodes):
    """All trees with <= max_nodes internal nodes; labels a / ali; leaves: Token X, Token _Y, None; <= 2 children per node."""
    leaves = [('X',), ('_Y',), (None,)]
    memo = {}

    def gen(n):             # trees with exactly n internal nodes
        if n in memo:
            return memo[n]
        out = []
        if n >= 1:
            for label in ('a', 'ali'):
                # children: sequences of 0..2 items, each a leaf or a subtree; the internal-node counts add up to n-1
                for k in range(0, 3):
                    for split in itertools.product(range(n), repeat=k):
                        if sum(split) != n - 1:
                            continue
                        opts = []
                        for s in split:
                            opts.append(leaves if s == 0 else gen(s))
                        for ch in itertools.product(*opts):
                            out.append((label, ch))
                    if k == 0 and n - 1 != 0:
                        pass
        memo[n] = out
        return out
    for n in range(1, max_nodes + 1):
        for t in gen(n):
            yield n, t


def build(t):
    if len(t) == 1:
        return None if t[0] is None else Token(t[0], t[0].lower().strip('_'))
    return Tree(t[0], [build(c) for c in t[1]])


def expected_order(t, names, toks, out):
    """Reference call log: children before parents (post-order), tokens included."""
    if len(t) == 1:
        if t[0] is not None and t[0] in toks:
            out.append(t[0])
        return
    for c in t[1]:
        expected_order(c, names, toks, out)
    if t[0] in names:
        out.append(t[0])


def part2(max_nodes, lo, hi, res, only=None):
    trees = list(small_trees(max_nodes))[lo:hi]
    for n, t in trees:
        for variant in VARIANTS + ('novisit',):
            if only and (only['tree'], only['variant']) != (repr(t), variant):
                continue
            results, logs = {}, {}
            for base in BASES:
                log = []
                T = make_transformer(base, 'plain' if variant == 'novisit' else variant, log, visit_tokens=(variant != 'novisit'))
                r = util.timed(lambda: T.transform(build(t)))
                res['evals'] += 1
                results[base] = ('ok', canon(r[1])) if r[0] == 'ok' else (r[0], type(r[1]).__name__)
                logs[base] = log
            if n >= 2:
                res['nontrivial'] += 1
            names = RULE_NAMES if variant != 'subset' else ('a', 'ali')
            toks = TOK_NAMES if variant not in ('notok', 'novisit') else ()
            want_log = []
            expected_order(t, names, toks, want_log)
            case = {'part': 2, 'tree': repr(t), 'variant': variant, 'max_nodes': max_nodes}
            ref = results['Transformer']
            for base in BASES:
                if results[base] != ref:
                    res['viol'].append({'kind': 'variants-disagree', 'cause': 'variants:' + base, 'case': dict(case, base=base), 'expected': ref, 'observed': results[base]})
                # exactly once per node; a node's callback after those of its descendants
                if sorted(logs[base]) != sorted(want_log):
                    res['viol'].append({'kind': 'callback-count', 'cause': 'call-count:' + base, 'case': dict(case, base=base), 'expected': want_log, 'observed': logs[base]})
                elif not order_ok(t, logs[base], names, toks):
                    res['viol'].append({'kind': 'callback-order', 'cause': 'call-order:' + base, 'case': dict(case, base=base), 'expected': want_log, 'observed': logs[base]})
    if trees and len(res['samples']) < 1:
        res['samples'].append({'tree': repr(trees[-1][1]), 'variants': list(VARIANTS), 'bases': list(BASES)})


def order_ok(t, log, names, toks):
    """Check children-before-parents on the call log by replaying it against the tree (labels may repeat, so the log is
    matched structurally: the post-order of some child ordering consistent with the log)."""
    # all four implementations visit children left to right or in an equivalent bottom-up order; the invariant checked is
    # weaker than a fixed order: at the time a node's callback is logged, the number of logged entries must be at least the
    # size of its subtree's log.  With repeated labels we verify this for the canonical post-order and breadth-wise bottom-up.
    want = []
    expected_order(t, names, toks, want)
    if log == want:
        return True
    # bottom-up by depth (NonRecursive / InPlace process a reversed BFS order): accept any order in which every node appears
    # after all nodes of its own subtree -- checked by a greedy matching over node identities
    nodes = []

    def collect(x, path):
        if len(x) == 1:
            if x[0] is not None and x[0] in toks:
                nodes.append((path, x[0], []))
            return [path] if (x[0] is not None and x[0] in toks) else []
        below = []
        for i, c in enumerate(x[1]):
            below += collect(c, path + (i,))
        if x[0] in names:
            nodes.append((path, x[0], list(below)))
            return below + [path]
        return below
    collect(t, ())
    done = set()
    for name in log:
        cand = [n_ for n_ in nodes if n_[1] == name and n_[0] not in done and all(b in done for b in n_[2])]
        if not cand:
            return False
        # prefer the candidate with the largest subtree already complete (any consistent choice works for a validity check
        # because candidates with the same label and satisfied prerequisites are interchangeable for their ancestors only
        # through the path prefix; choose deepest first)
        cand.sort(key=lambda n_: -len(n_[0]))
        done.add(cand[0][0])
    return len(done) == len(nodes)


def plan(tier, seed):
    items = [('p1',) + it for it in _run.plan(tier, seed)]
    mx = 4 if tier == 'quick' else 5
    n = sum(1 for _ in small_trees(mx))
    for lo in range(0, n, 400):
        items.append(('p2', mx, lo, min(n, lo + 400)))
    return items


def bounds(tier, seed):
    return {'part1': _run.bounds(tier, seed), 'bases': list(BASES), 'variants': list(VARIANTS),
            'part2': 'all trees with <= %d internal nodes, <= 2 children per node, labels a/ali, leaves X/_Y/None' % (4 if tier == 'quick' else 5)}


def work(item):
    if item[0] == 'p1':
        return _run.work(item[1:])
    res = new_res()
    part2(item[1], item[2], item[3], res)
    res['counters'] = dict(res['counters'])
    return res


def replay(case):
    if case.get('part') == 2:
        res = new_res()
        part2(case['max_nodes'], 0, None, res, only=case)
        return res['viol']
    return _run.replay(case)
