"""C14 -- scan() yields leftmost-longest non-overlapping matches consistent with parse() (DESIGN.md section 4, C14)."""
from lark import Tree
from lark.utils import TextSlice
from lark.exceptions import UnexpectedInput

from .. import reflex, larkio, util, obs
from ..reflex import TDef, INF
from ..famrun import new_res

ID = 'C14'
LEVEL = 'exploration'
RULE = ('a menu of LALR grammars (single token, sequence, optional tail, nullable start, nesting, keyword+identifier, ignored '
        'blanks, an ignored terminal containing a start character, greedy terminals, two start symbols, newline-bearing kept and '
        'ignored terminals, left recursion, prefix-colliding strings) x lexer basic/contextual x str/bytes x every text up to the '
        'bound x windows: list(scan()) is compared with the list computed by brute force -- for every position q not inside '
        'ignored text the reference lexer gives the token boundaries of the full text from q, the real parse(TextSlice(text,q,e)) '
        'decides which boundaries complete a parse, the longest one is the match, the leftmost q wins and scanning resumes at the '
        'match end; each value must equal parse(TextSlice(text,s,e)) including positions and meta. Non-trivial = text with at '
        'least one match and at least one skipped character; distinct by construction')
ASSUMPTIONS = ['token boundaries of the full text come from the reference lexer of C07 (maximal-munch side condition)',
               'parse() on a window is the standard a match value is compared with (parse itself is judged by C02/C03/C06/C15)']
DEADLINE = {'quick': 900, 'thorough': 3 * 3600}

A, B = TDef('A', 'str', 'a'), TDef('B', 'str', 'b')
WS = TDef('WS', 'str', ' ')
GRAMMARS = [
    # (name, grammar body, terminals, ignored names, alphabet, start symbols)
    ('single', 'start: A', [A, B], [], 'ab', ['start']),
    ('seq', 'start: A B', [A, B], [], 'ab', ['start']),
    ('opt-tail', 'start: A B?', [A, B], [], 'ab', ['start']),
    ('nullable', 'start: A*', [A, B], [], 'ab', ['start']),
    ('nest', 'start: LP start RP | A', [A, TDef('LP', 'str', '('), TDef('RP', 'str', ')')], [], 'a()', ['start']),
    ('kw-id', 'start: IF NAME', [TDef('IF', 'str', 'if'), TDef('NAME', 're', '[a-z]+', '', 0, INF), WS], ['WS'], 'if a', ['start']),
    ('ws', 'start: A B', [A, B, WS], ['WS'], 'ab ', ['start']),
    ('ign-start-char', 'start: A B?', [A, B, TDef('XA', 're', 'x+a', '', 0, INF)], ['XA'], 'abx', ['start']),
    ('greedy', 'start: AS B', [TDef('AS', 're', 'a+', '', 0, INF), B], [], 'ab', ['start']),
    ('two-starts', 'start: A B\nother: B A+', [A, B], [], 'ab', ['other', 'start']),
    ('nl-kept', 'start: A NL A', [A, B, TDef('NL', 're', '\\n+', '', 0, INF)], [], 'ab\n', ['start']),
    ('nl-ign', 'start: A B', [A, B, TDef('NL', 're', '\\n', '', 0, 1), WS], ['NL', 'WS'], 'ab\n ', ['start']),
    ('leftrec', 'start: start C A | A', [A, TDef('C', 'str', ',')], [], 'a,', ['start']),
    ('prefix-coll', 'start: AB A?', [TDef('AB', 'str', 'ab'), A, B], [], 'ab', ['start']),
    ('op-comment', 'start: NAME EQ NUM (SLASH NUM)?', [TDef('NAME', 're', '[ab]', '', 0, 1), TDef('EQ', 'str', '='), TDef('NUM', 're', '[12]', '', 0, 1),
                                                         TDef('SLASH', 'str', '/'), TDef('COMMENT', 're', '//[^\\n]*', '', 0, INF), TDef('NL', 'str', '\n')],
     ['COMMENT', 'NL'], 'a=1/\n', ['start']),
    ('long-first', 'start: AA B', [TDef('AA', 'str', 'aa'), B], [], 'ab', ['start']),
]


EXTRA_TEXTS = {'op-comment': ['//a=1\nb=2', 'a=1//b=2\na=2/1', '//a=1\n//b=2\na=1', 'a=1/2//\n', 'b=2 //a=1'],
               'kw-id': ['if a if b', 'a if ab iff'], 'nest': ['((a))', '(a))(a)', '()(a)']}


def gtext(g):
    name, body, tdefs, ign, alpha, starts = g
    return body + '\n' + '\n'.join(t.text() for t in tdefs) + '\n' + ''.join('%%ignore %s\n' % n for n in ign)


def plan(tier, seed):
    L = 6 if tier == 'quick' else 7
    items = [(gi, lexer, ub, L if len(GRAMMARS[gi][4]) <= 3 else (L - 1 if len(GRAMMARS[gi][4]) <= 4 else L), tier) for gi in range(len(GRAMMARS))
             for lexer in ('basic', 'contextual') for ub in (False, True)]
    # the same with a lexer callback that changes the *length* of every A token (Token.update, as scan()'s documentation
    # recommends): ranges and resume positions are source offsets, whatever the callback makes of the value
    items += [(gi, lexer, ub, L - 1, tier, True) for gi in range(len(GRAMMARS)) if GRAMMARS[gi][0] in CB_GRAMMARS
              for lexer in ('basic', 'contextual') for ub in (False, True)]
    return items


CB_GRAMMARS = ('seq', 'opt-tail', 'ws', 'leftrec', 'nullable')


def _double(t):
    return t.update(value=t.value + t.value)


def _empty(t):
    return t.update(value=t.value[:0])


def bounds(tier, seed):
    return {'grammars': [g[0] for g in GRAMMARS], 'lexers': ['basic', 'contextual'], 'representations': ['str', 'bytes'],
            'max_text_len': '6 (5 for 4-letter alphabets)' if tier == 'quick' else '7 (6)',
            'windows': 'full text + every window [a,b) of every text up to length 5' if tier == 'quick' else 'every window of every text'}


def parse_window(p, text, q, e, start):
    r = util.timed(lambda: p.parse(TextSlice(text, q, e), start=start))
    if r[0] == 'ok':
        return ('ok', obs.canon(r[1], pos=True, meta=True))
    return (r[0],)


def expected_scan(p, g, text, lo, hi, start):
    name, body, tdefs, ign, alpha, starts = g
    out = []
    pos = lo
    bm = isinstance(text, bytes)
    while pos < hi:
        found = None
        for q in range(pos, hi):
            lx = reflex.lex_basic(tdefs, ign, text[q:hi])
            toks = lx[1] if lx[0] == 'ok' else lx[2]
            if not toks or toks[0][2] != 0:
                continue
            best = None
            for typ, val, st in toks:
                e = q + st + len(val)
                r = parse_window(p, text, q, e, start)
                if r[0] == 'ok':
                    best = (e, r[1])
            if best:
                found = (q, best[0], best[1])
                break
        if not found:
            break
        out.append(found)
        pos = found[1]
    return out


def real_scan(p, text, lo, hi, start, whole):
    arg = text if whole else TextSlice(text, lo, hi)
    r = util.timed(lambda: [(m.range[0], m.range[1], obs.canon(m.value, pos=True, meta=True)) for m in p.scan(arg, start=start)], 20)
    return r


def check(gi, lexer, use_bytes, L, tier, cb=False, res=None, only=None):
    g = GRAMMARS[gi]
    name, body, tdefs, ign, alpha, starts = g
    text_g = gtext(g)
    kw = {'lexer_callbacks': {'A': _double, 'B': _empty}} if cb else {}
    r = larkio.build(text_g, parser='lalr', lexer=lexer, start=starts, propagate_positions=True, use_bytes=use_bytes, **kw)
    res['evals'] += 1
    cfg = {'grammar_name': name, 'grammar': text_g, 'lexer': lexer, 'use_bytes': use_bytes, 'item': [gi, lexer, use_bytes, L, tier, cb]}
    if cb:
        cfg['lexer_callbacks'] = 'A: value doubled, B: value emptied (Token.update)'
    if r[0] != 'ok':
        res['viol'].append({'kind': 'construction', 'cause': 'construction', 'case': cfg, 'expected': 'constructed', 'observed': repr(r[1])[:300]})
        return
    p = r[1]
    for w in list(util.strings(alpha, L)) + EXTRA_TEXTS.get(name, []):
        text = w.encode('ascii') if use_bytes else w
        wins = [(0, len(w), True)]
        if tier == 'thorough' or len(w) <= 5:
            wins += [(a, b, False) for a in range(len(w) + 1) for b in range(a, len(w) + 1) if (a, b) != (0, len(w))]
        for start in starts:
            for lo, hi, whole in wins:
                if only and (only['input'], only['window'], only['start']) != (w, [lo, hi], start):
                    continue
                got = real_scan(p, text, lo, hi, start, whole)
                res['evals'] += 1
                case = dict(cfg, input=w, window=[lo, hi], start=start)
                if got[0] != 'ok':
                    res['viol'].append({'kind': 'scan-' + got[0], 'cause': 'scan-error', 'case': case, 'expected': 'a list of matches',
                                        'observed': repr(got[1])[:300]})
                    continue
                if name == 'prefix-coll' and lexer == 'contextual':
                    # prefix-colliding terminals under the contextual lexer: token boundaries depend on the parser state, so
                    # only clauses (i) ordered/non-overlapping/inside the window and (ii) value == parse(window) are judged
                    ok = all(lo <= s < e <= hi for s, e, _ in got[1]) and all(a[1] <= b[0] for a, b in zip(got[1], got[1][1:]))
                    vals = all(parse_window(p, text, s, e, start) == ('ok', v) for s, e, v in got[1])
                    if not ok or not vals:
                        res['viol'].append({'kind': 'scan-ranges' if not ok else 'scan-value', 'cause': 'scan-weak', 'case': case,
                                            'expected': 'ordered, non-overlapping matches equal to parse(window)', 'observed': [x[:2] for x in got[1]]})
                    continue
                want = expected_scan(p, g, text, lo, hi, start)
                if want and sum(e - s for s, e, _ in want) < hi - lo:
                    res['nontrivial'] += 1
                if got[1] != want:
                    gr, wr = [x[:2] for x in got[1]], [x[:2] for x in want]
                    kind = 'ranges' if gr != wr else 'value'
                    if gr != wr:
                        exp, ob = wr, gr
                    else:
                        i = next(i for i, (a, b) in enumerate(zip(got[1], want)) if a != b)
                        exp, ob = want[i], got[1][i]
                    res['viol'].append({'kind': 'scan-' + kind, 'cause': 'scan-' + kind, 'case': case, 'expected': exp, 'observed': ob})
                elif want and len(res['samples']) < 2 and len(want) >= 2:
                    res['samples'].append({'grammar': text_g, 'lexer': lexer, 'text': w, 'window': [lo, hi], 'matches': [x[:2] for x in want]})


def work(item):
    res = new_res()
    check(*item, res=res)
    res['counters'] = dict(res['counters'])
    return res


def replay(case):
    res = new_res()
    check(*case['item'], res=res, only=case)
    return res['viol']
