"""C04 -- ambiguity='explicit' enumerates exactly all derivations (DESIGN.md section 4, C04)."""
import itertools
from lark.visitors import CollapseAmbiguities

from .. import families, gram, refsem, larkio, util, obs
from ..gram import Term
from ..famrun import FamRun

ID = 'C04'
LEVEL = 'exploration'
RULE = ('every grammar of the BNF families (helper rule spelled a / _a / ?a) x lexer x every input up to the bound is '
        'parsed with ambiguity=explicit; the set of trees obtained by expanding every _ambig node (as CollapseAmbiguities does; own implementation that tolerates None placeholders) is compared with the set of '
        'shaped derivations computed by a fix-point over sets of derivation trees (acyclic grammars: equality; cyclic: '
        'termination + every tree validated as a derivation). Non-trivial = accepted input with >= 2 derivations, or a '
        'cyclic grammar with an accepted non-empty input; distinct by construction (disjoint index ranges). Box ph: [..] placeholders (present and absent) around one inlined rule shared by two parents')
ASSUMPTIONS = ['reference derivation enumerator refsem.Derivations (cap 256 derivations per case; larger cases counted and skipped)',
               '_ambig nodes are expanded by an own product construction (lark.visitors.CollapseAmbiguities cannot iterate the None placeholders of [..])',
               'CPython re for single-terminal membership']
DEADLINE = {'quick': 900, 'thorough': 3 * 3600}

AMB = {'p': (('tok', 'A'), [Term('A', (('str', 'a', ''), ('str', 'aa', '')))]),
       'q': (('tok', 'B'), [Term('B', (('str', 'a', ''),))])}
COLL = {'a': (('tok', 'A'), [Term('A', (('str', 'a', ''),))]),
        'b': (('tok', 'B'), [Term('B', (('str', 'b', ''),))]),
        'c': (('tok', 'AB'), [Term('AB', (('str', 'ab', ''),))])}


class PH:
    """`[..]` placeholders under ambiguity='explicit': start: p | q, both built over one shared inlined rule `_x`
    (so the forest node of `_x` has several parents), bodies from a menu of sequences mixing `_x`, `_x+`, absent/present
    optionals and plain terminals."""

    def __init__(self):
        from ..gram import Rule, Term
        A, B, C, X = ('tok', 'A'), ('tok', 'B'), ('tok', 'C'), ('ref', '_x')
        mb = lambda *seq: ('maybe', (tuple(seq),))
        self.menu = [(X, mb(B), C), (X, C), (X, mb(B, C)), (mb(B), X, C), (X, X, mb(B)), (X, mb(B), mb(C)), (('plus', X), mb(B)), (A, mb(B), X), (X, B, C)]
        self.xs = [(((A,), None),), (((A,), None), ((A, A), None))]
        self.items = [(i, j, k) for i in range(len(self.menu)) for j in range(len(self.menu)) for k in range(len(self.xs))]
        self.terms = [Term(n, (('str', n.lower(), ''),)) for n in 'ABC']

    def __len__(self):
        return len(self.items)

    def grammar(self, idx):
        from ..gram import Rule, Grammar
        i, j, k = self.items[idx]
        rules = [Rule('start', '', None, (((('ref', 'p'),), None), ((('ref', 'q'),), None))),
                 Rule('p', '', None, ((self.menu[i], None),)), Rule('q', '', None, ((self.menu[j], None),)),
                 Rule('_x', '', None, self.xs[k])]
        return Grammar(rules, self.terms)


def box(name):
    B = families.BNF
    base, _, var = name.partition('-')
    mods = {'': {}, 'u': {'a': ('', None)}, 'q': {'a': ('?', None)}}[var if var != 'u' else 'u']
    nts = ('start', '_a') if var == 'u' else None
    if base == 'x1':
        return dict(fam=B(2, 'x', 2, 2, render='tok', nt_names=nts, mods=mods), alpha='x', lexers=('basic', 'dynamic'))
    if base == 'x2':
        return dict(fam=B(2, 'xy', 2, 2, render='tok', nt_names=nts, mods=mods), alpha='xy', lexers=('basic', 'dynamic'))
    if base == 'long':      # one long alternative for start: ambiguous intermediate nodes followed by several symbols
        return dict(fam=B(2, 'x', (1, 2), (4, 2), render='tok', nt_names=nts, mods=mods), alpha='x', lexers=('basic', 'dynamic'))
    if base == 'in3':       # nested inlined rules: start: .. _a ..; _a: up to 3 symbols incl. _b; _b ambiguous
        return dict(fam=B(3, 'x', (1, 1, 2), (2, 3, 2), render='tok', nt_names=('start', '_a', '_b')), alpha='x', lexers=('basic', 'dynamic'))
    if base == 'in3q':
        return dict(fam=B(3, 'x', (1, 1, 2), (2, 3, 2), render='tok', nt_names=('start', 'a', '_b'), mods={'a': ('?', None)}), alpha='x', lexers=('basic',))
    if base == 'ig':        # %ignore " " next to terminals that start with / can match the ignored character
        from .c01 import AB_SP, WS
        return dict(fam=B(2, 'abcd', (2, 1), 2, render=AB_SP, ignore=('WS',), extra_terms=(WS,)), alpha='ab ', lexers=('dynamic', 'dynamic_complete'))
    if base == 'ph':
        return dict(fam=PH(), alpha='abc', lexers=('basic', 'dynamic'))
    if base == 'k3':
        return dict(fam=B(3, 'x', (2, 2, 1), 2, render='tok'), alpha='x', lexers=('basic', 'dynamic'))
    if base == 'dc':
        return dict(fam=B(2, 'pq', 2, 2, render=AMB, nt_names=nts, mods=mods), alpha='a', lexers=('dynamic_complete',))
    if base == 'co':
        return dict(fam=B(2, 'abc', (2, 1), 2, render=COLL), alpha='ab', lexers=('dynamic', 'dynamic_complete'))
    raise KeyError(name)


TIERS = {
    'quick': [('x1', 1, 4), ('x1-u', 1, 4), ('x1-q', 1, 4), ('dc', 4, 4), ('x2', 16, 4), ('co', 16, 4), ('long', 2, 5), ('in3', 32, 4), ('in3q', 256, 4), ('ig', 16, 4), ('ph', 1, 4)],
    'thorough': [('x1', 1, 5), ('x1-u', 1, 5), ('x1-q', 1, 5), ('dc', 1, 4), ('dc-u', 2, 4), ('dc-q', 2, 4),
                 ('x2', 1, 4), ('x2-u', 4, 4), ('x2-q', 4, 4), ('co', 1, 4), ('k3', 8, 4), ('long', 1, 6), ('long-u', 1, 5), ('long-q', 1, 5), ('in3', 4, 4), ('in3q', 16, 4), ('ig', 1, 4), ('ph', 1, 5)],
}


def norm_lark(t, named):
    """canonical lark tree -> comparable form: token types kept only for named terminals."""
    if t is None:
        return None
    if t[0] == 'tok':
        return ('tok', t[1] if t[1] in named else None, t[2])
    if t[0] != 'tree':
        return t            # ('cycle', label), ('obj', ...): kept as they are (never equal to a reference tree)
    return ('tree', t[1], tuple(norm_lark(c, named) for c in t[2]))


def norm_ref(t, same=None):
    """same: {('lit', text): NAME} for anonymous literals that coincide with a named terminal (lark gives the token
    that terminal's name)."""
    if t is None:
        return None
    if t[0] == 'tok':
        if same and t[1] in same:
            return ('tok', same[t[1]], t[2])
        return ('tok', t[1][1] if t[1][0] == 'tok' else None, t[2])
    return ('tree', t[1], tuple(norm_ref(c, same) for c in t[2]))


def valid_derivation(t, g, text, named, reach=None):
    """Direct validator for no-shaping grammars: every node spells one alternative of its rule and the leaves
    concatenate to the input (used for cyclic grammars, where the derivation set is infinite)."""
    leaves = []

    def ok(n):
        if n[0] != 'tree' or n[1] not in g.rules:
            return False
        kinds = []
        for c in n[2]:
            if c is None:
                return False
            if c[0] == 'tok':
                kinds.append(('tok', c[1]))
                leaves.append(c[2])
            else:
                if not ok(c):
                    return False
                kinds.append(('ref', c[1]))
        return any(tuple(seq) == tuple(kinds) for seq, _ in g.rules[n[1]].alts)
    if not ok(t):
        return False
    if reach is None:
        return ''.join(leaves) == text
    cur = set(reach[0])         # leaves must tile the input with only ignored text between them
    for leaf in leaves:
        cur = {q for p_ in cur if text.startswith(leaf, p_) for q in reach[p_ + len(leaf)]}
    return len(text) in cur


def collapse(t, _cap=[0]):
    """Expand every _ambig node into its alternatives (what lark.visitors.CollapseAmbiguities does, but tolerant of the
    None placeholders of `[..]`, which that class cannot iterate).  -> list of trees; raises OverflowError beyond 4096."""
    from lark import Tree
    if not isinstance(t, Tree):
        return [t]
    if t.data == '_ambig':
        out = []
        for c in t.children:
            out.extend(collapse(c))
        if len(out) > 4096:
            raise OverflowError('more than 4096 trees')
        return out
    lists = [collapse(c) for c in t.children]
    n = 1
    for l in lists:
        n *= len(l)
        if n > 4096:
            raise OverflowError('more than 4096 trees')
    return [Tree(t.data, list(combo)) for combo in itertools.product(*lists)]


def check(g, gi, boxname, b, inputs, res, only=None):
    gtext = g.text()
    cyc = refsem.cyclic(g)
    plain = all(r.mod == '' and not r.name.startswith('_') for r in g.rules.values())
    named = set(g.terms)
    for lexer in b['lexers']:
        if only and only['lexer'] != lexer:
            continue
        r = larkio.build(gtext, parser='earley', lexer=lexer, ambiguity='explicit')
        res['evals'] += 1
        if r[0] != 'ok':
            res['viol'].append({'kind': 'construction-' + larkio.outcome(r), 'cause': 'construction',
                                'case': {'box': boxname, 'gidx': gi, 'grammar': gtext, 'lexer': lexer},
                                'expected': 'constructed', 'observed': repr(r[1])[:300]})
            continue
        p = r[1]
        mode = 'longest' if lexer == 'dynamic' else 'exact'
        for w in inputs:
            if cyc and len(w) > 3:
                continue
            case = {'box': boxname, 'gidx': gi, 'grammar': gtext, 'lexer': lexer, 'input': w}
            E = refsem.Edges.chars(g, w, mode)
            pr = larkio.parse(p, w, timeout=20)
            res['evals'] += 1
            if pr[0] == 'hang':
                res['viol'].append({'kind': 'hang', 'cause': 'cyclic-hang' if cyc else 'hang', 'case': case,
                                    'expected': 'parse terminates', 'observed': 'no result within 20 s'})
                continue
            if pr[0] == 'exc':
                if not obs.is_unexpected_input(pr[1]) or refsem.accepts(g, E):
                    res['viol'].append({'kind': 'error', 'cause': 'language', 'case': case,
                                        'expected': 'a tree', 'observed': repr(pr[1])[:300]})
                continue
            cr = util.timed(lambda: collapse(pr[1]), 20)
            if cr[0] != 'ok':
                res['counters']['expansion too large / failed (not judged)'] += 1
                continue
            got = [norm_lark(obs.canon(t), named) for t in cr[1]]
            gotset = set(got)
            if cyc:
                res['nontrivial'] += 1 if w else 0
                res['counters']['cyclic cases (termination + soundness)'] += 1
                if plain:
                    bad = [t for t in gotset if not valid_derivation(t, g, w, named, E.reach if g.ignore else None)]
                    if bad:
                        res['viol'].append({'kind': 'unsound-tree-cyclic', 'cause': 'cyclic-soundness', 'case': case,
                                            'expected': 'every tree is a derivation of the input', 'observed': bad[0]})
                continue
            try:
                D = refsem.derivations(g, E)
            except refsem.TooAmbiguous:
                res['counters']['skipped: more than 256 derivations'] += 1
                continue
            want = {norm_ref(refsem.shape(d, g, w, False, True)) for d in D}
            if len(D) >= 2:
                res['nontrivial'] += 1
            if gotset != want:
                missing, extra = want - gotset, gotset - want
                res['viol'].append({'kind': 'missing-derivation' if missing else 'extra-tree', 'cause': 'derivation-set',
                                    'case': case, 'expected': sorted(want, key=repr)[:6],
                                    'observed': {'missing': sorted(missing, key=repr)[:3], 'extra': sorted(extra, key=repr)[:3],
                                                 'n_expected': len(want), 'n_got': len(gotset)}})
            elif len(D) >= 2 and len(res['samples']) < 2:
                res['samples'].append({'grammar': gtext, 'lexer': lexer, 'input': w, 'derivations': len(D),
                                       'collapsed_trees': len(got)})
            if len(got) != len(gotset):
                res['counters']['cases where a tree is listed more than once (reported, not judged)'] += 1


_run = FamRun(box, TIERS, check, chunk=48)
plan, bounds, work, replay = _run.plan, _run.bounds, _run.work, _run.replay
