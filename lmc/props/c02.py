"""C02 -- LALR(1): conflicts reported, language sound and (conflict-free) exact, next-token sets exact."""
from lark import Token
from lark.exceptions import GrammarError, UnexpectedInput, UnexpectedToken

from .. import families, gram, refsem, reflalr, larkio, util, obs
from ..famrun import FamRun

ID = 'C02'
LEVEL = 'model_checking'
RULE = ('for every reduced grammar of the BNF families x rule-priority assignment: (1) GrammarError <=> the reference '
        '(canonical LR(1) merged by core) has an unresolved reduce/reduce conflict; (2) every state of the real parse table '
        '(debug=True) is matched to the reference state with the same LR(0) item set and the action rows are compared entry '
        'by entry; (3) breadth-first walk of the real pushdown automaton (ImmutableInteractiveParser.feed_token) over every '
        'token string up to the bound, deduplicated on the state stack: choices()/accepts()/feed outcome/feed_eof compared '
        'with the reference simulator, acceptance compared with an independent CFG recogniser (soundness always, completeness '
        'without shift/reduce conflict); (4) parse(text) under both lexers agrees. states = distinct (grammar, state stack) '
        'configurations; transitions = feed_token/feed_eof calls on the implementation; non-trivial = configurations reached '
        'by a non-empty token string')
ASSUMPTIONS = ['LALR(1) look-aheads = canonical LR(1) look-aheads merged by core (a theorem for reduced grammars; non-reduced members are only judged for soundness)',
               'reference CFG recogniser refsem.Chart at token level']
DEADLINE = {'quick': 900, 'thorough': 3 * 3600}

PR = {'n': None, '1': 1, '2': 2}


def box(name):
    B = families.BNF
    base, _, spec = name.partition('/')
    mods = {}
    if spec:
        mods = {'a': ('', PR[spec[0]])}
        if len(spec) > 1:
            mods['b'] = ('', PR[spec[1]])
    if base == 'x1':
        return dict(no_inputs=True, fam=B(2, 'x', 2, 2, render='tok', mods=mods), alpha=('X',))
    if base == 'x2':
        return dict(no_inputs=True, fam=B(2, 'xy', 2, 2, render='tok', mods=mods), alpha=('X', 'Y'))
    if base == 'x2l':
        return dict(no_inputs=True, fam=B(2, 'xy', (1, 2), (3, 2), render='tok', mods=mods), alpha=('X', 'Y'))
    if base == 'x2ms':      # several start symbols
        return dict(no_inputs=True, fam=B(2, 'xy', 2, 2, render='tok'), alpha=('X', 'Y'), starts=('start', 'a'))
    if base == 'k3':
        return dict(no_inputs=True, fam=B(3, 'x', (2, 2, 1), 2, render='tok', mods=mods), alpha=('X',))
    if base == 'k3y':
        return dict(no_inputs=True, fam=B(3, 'xy', (2, 1, 1), 2, render='tok', mods=mods), alpha=('X', 'Y'))
    if base == 'k3p':       # three prioritised rules competing: b has its own priority
        return dict(no_inputs=True, fam=B(3, 'x', (3, 1, 1), (1, 1, 1), render='tok', mods=mods), alpha=('X',))
    raise KeyError(name)


TIERS = {
    'quick': [('x1', 1, 4), ('x1/1', 1, 4), ('x2', 8, 4), ('x2/2', 32, 4), ('k3', 64, 4), ('k3/12', 64, 4), ('k3y', 32, 4),
              ('x2l', 8, 4), ('x2ms', 16, 4), ('k3p/12', 1, 3), ('k3p/22', 1, 3), ('k3p/1n', 1, 3)],
    'thorough': [('x1', 1, 5), ('x1/1', 1, 5), ('x1/2', 1, 5), ('x2', 1, 5), ('x2/1', 4, 4), ('x2/2', 4, 4), ('k3', 4, 4),
                 ('k3/12', 8, 4), ('k3/21', 8, 4), ('k3/11', 8, 4), ('k3y', 2, 4), ('x2l', 1, 5), ('x2ms', 1, 4),
                 ('k3p/12', 1, 3), ('k3p/22', 1, 3), ('k3p/1n', 1, 3), ('k3p/21', 1, 3), ('k3p/11', 1, 3)],
}


def lark_core(state, rule_index):
    return frozenset((rule_index[rp.rule.origin.name, tuple(s.name for s in rp.rule.expansion)], rp.index) for rp in state)


def sym_name(sym):
    return sym[1] if sym[0] in ('tok', 'ref') else sym


def check(g, gi, boxname, b, inputs, res, only=None):
    gtext = g.text()
    L = b['L']
    terms = b['alpha']
    case0 = {'box': boxname, 'gidx': gi, 'grammar': gtext}
    reduced = refsem.productive(g) == set(g.rules)

    def bad(kind, cause, exp, got, **extra):
        res['viol'].append({'kind': kind, 'cause': cause, 'case': dict(case0, **extra), 'expected': exp, 'observed': got})
    ref = reflalr.RefLALR(g)
    rr = ref.rr_conflicts()
    sr = ref.sr_conflicts() or ref.rr_resolved_by_priority()   # either way the resolved automaton, not the CFG, defines acceptance
    r = larkio.build(gtext, parser='lalr', debug=True)
    res['evals'] += 1
    if r[0] == 'hang':
        bad('construction-hang', 'construction', 'constructed', 'watchdog')
        return
    if r[0] == 'exc':
        if not isinstance(r[1], GrammarError):
            bad('construction-error', 'construction', 'GrammarError or a parser', repr(r[1])[:200])
        elif not reduced:
            res['counters']['non-reduced grammar: conflict clause not judged'] += 1
        elif not rr:
            bad('spurious-conflict', 'conflict-report', 'no reduce/reduce conflict in the reference automaton', str(r[1])[:300])
        else:
            res['counters']['reduce/reduce conflict reported (agrees with reference)'] += 1
        return
    p = r[1]
    if reduced and rr:
        bad('conflict-not-reported', 'conflict-report', 'GrammarError: %d unresolved reduce/reduce conflicts, e.g. on %s' % (
            len(rr), sym_name(rr[0][1])), 'parser constructed')
        return
    if not reduced:
        res['counters']['non-reduced grammar: only soundness judged'] += 1
    # (2) all states of the automaton
    table_ok = reduced
    pt = p.parser.parser._parse_table
    rule_index = {}
    for i, (lhs, rhs, _) in enumerate(ref.rules):
        rule_index[('$root_start' if lhs == reflalr.ROOT else lhs), tuple(sym_name(s) for s in rhs)] = i
    core_of_state = {}
    if reduced:
        try:
            for st in pt.states:
                core_of_state[st] = lark_core(st, rule_index)
        except KeyError as e:
            bad('unknown-rule-in-table', 'table', 'rules of the grammar', repr(e)[:200])
            return
        lark_cores = set(core_of_state.values())
        if lark_cores != set(ref.cores) or len(lark_cores) != len(pt.states):
            bad('state-set', 'table-states', '%d states (LR(0) item sets)' % len(ref.cores), '%d states' % len(pt.states))
            table_ok = False
        else:
            reftab = ref.table()
            for st, row in pt.states.items():
                res['states'] += 1
                want = {}
                for sym, act in reftab[core_of_state[st]].items():
                    want[sym_name(sym)] = act
                got = {}
                for name, (action, arg) in row.items():
                    if action.name == 'Shift':
                        got[name] = ('s', core_of_state[arg])
                    else:
                        got[name] = ('r', rule_index[arg.origin.name, tuple(s.name for s in arg.expansion)])
                if got != want:
                    d = {k: (want.get(k), got.get(k)) for k in set(want) | set(got) if want.get(k) != got.get(k)}
                    k = sorted(d)[0]
                    items = sorted((ref.rules[ri][0], [sym_name(s) for s in ref.rules[ri][1]], dot) for ri, dot in core_of_state[st])
                    bad('action-row', 'table-row', {'symbol': k, 'action': _act(ref, d[k][0])}, {'symbol': k, 'action': _act(ref, d[k][1])},
                        state_items=items)
                    table_ok = False
                    break
    # (3) walk the real pushdown automaton
    # a cyclic grammar whose reduce/reduce conflicts are resolved by priority may loop by construction (the winner is
    # the cycle): judged only where the reference automaton does not loop either
    may_loop = refsem.cyclic(g) and any(r_.prio for r_ in g.rules.values())
    prio_resolved = bool(ref.rr_resolved_by_priority()) and not rr

    def ref_loops(toks_, last):
        """Does the priority-resolved *reference* automaton loop on this feed?  (Also consulted for non-reduced grammars: a
        reduce/reduce conflict resolved by the user's priorities towards an empty rule can loop by construction.)"""
        if not prio_resolved:
            return False
        s_ = ref.sim()
        for t_ in toks_:
            r_ = s_.feed(('tok', t_))
            if r_ == 'loop':
                return True
            if r_ != 'shift':
                return False
        return s_.feed(('tok', last) if last != '$END' else reflalr.END) == 'loop'
    ip0 = p.parse_interactive().as_immutable()
    sim0 = ref.sim() if not rr else None
    frontier = [(ip0, sim0, ())]
    seen = {tuple(id(s) for s in ip0.parser_state.state_stack)}
    accepted = {}
    depth = 0
    use_sim = table_ok and sim0 is not None
    while frontier:
        nxt = []
        for ip, sim, toks in frontier:
            res['states'] += 1
            if toks:
                res['nontrivial'] += 1
            # choices / accepts
            ch = {k for k in ip.choices() if k.isupper() or k == '$END'}
            acc = util.timed(ip.accepts, 3)
            res['transitions'] += len(terms) + 1
            if acc[0] != 'ok':
                if (not reduced and may_loop) or any(ref_loops(toks, t) for t in list(terms) + ['$END']) or (use_sim and any(sim.copy().feed(('tok', t) if t != '$END' else reflalr.END) == 'loop' for t in list(terms) + ['$END'])):
                    res['counters']['diverges exactly where the priority-resolved reference automaton loops (cyclic grammar)'] += 1
                    return
                bad('accepts-failed', 'accepts-hang' if acc[0] == 'hang' else 'accepts', 'a set', repr(acc), tokens=list(toks))
                return
            acc = set(acc[1])
            if use_sim:
                want_ch = {sym_name(s) for s in sim.terminals()}
                if ch != want_ch:
                    bad('choices', 'choices', sorted(want_ch), sorted(ch), tokens=list(toks))
                want_acc = {t for t in list(terms) + ['$END'] if sim.can_feed(('tok', t) if t != '$END' else reflalr.END)}
                if acc != want_acc:
                    bad('accepts', 'accepts', sorted(want_acc), sorted(acc), tokens=list(toks))
            # feed_eof
            e = util.timed(lambda: ip.as_mutable().feed_eof(), 3)
            res['transitions'] += 1
            is_acc = e[0] == 'ok'
            if e[0] == 'hang':
                if (use_sim and sim.copy().feed(reflalr.END) == 'loop') or (not reduced and may_loop) or ref_loops(toks, '$END'):
                    res['counters']['diverges exactly where the priority-resolved reference automaton loops (cyclic grammar)'] += 1
                    return
                bad('feed_eof-hang', 'hang', 'terminates', 'watchdog', tokens=list(toks))
                return
            elif e[0] == 'exc' and not isinstance(e[1], UnexpectedInput):
                bad('feed_eof-error', 'error-class', 'UnexpectedInput', repr(e[1])[:200], tokens=list(toks))
            accepted[toks] = is_acc
            cfg = refsem.accepts(g, refsem.Edges.tokens(g, [('tok', t) for t in toks]))
            if is_acc and not cfg:
                bad('unsound-accept', 'soundness', 'reject: not a sentence of the grammar', 'accepted', tokens=list(toks))
            if cfg and not is_acc and reduced and not sr and not rr:
                bad('incomplete', 'completeness', 'accept: sentence of a conflict-free grammar', 'rejected', tokens=list(toks))
            if use_sim:
                want = sim.copy().feed(reflalr.END) == 'accept'
                if want != is_acc:
                    bad('eof-vs-automaton', 'automaton', 'accept' if want else 'reject', 'accept' if is_acc else 'reject', tokens=list(toks))
            if ('$END' in acc) != is_acc:
                bad('accepts-vs-feed', 'accepts', '$END in accepts() <=> feed_eof succeeds', {'accepts': sorted(acc), 'feed_eof': is_acc}, tokens=list(toks))
            if len(toks) >= L:
                continue
            for t in terms:
                f = util.timed(lambda: ip.feed_token(Token(t, t.lower())), 3)
                res['transitions'] += 1
                res['traces'] += 1
                if f[0] == 'hang' and ((not reduced and may_loop) or ref_loops(toks, t) or (use_sim and sim.copy().feed(('tok', t)) == 'loop')):
                    res['counters']['diverges exactly where the priority-resolved reference automaton loops (cyclic grammar)'] += 1
                    return
                if f[0] == 'hang':
                    bad('feed-hang', 'hang', 'terminates', 'watchdog (reduce loop?)', tokens=list(toks) + [t])
                    return
                ok = f[0] == 'ok'
                if not ok and not isinstance(f[1], UnexpectedToken):
                    bad('feed-error', 'error-class', 'UnexpectedToken', repr(f[1])[:200], tokens=list(toks) + [t])
                if (t in acc) != ok:
                    bad('accepts-vs-feed', 'accepts', 't in accepts() <=> feed_token(t) succeeds', {'t': t, 'accepts': sorted(acc), 'feed': ok},
                        tokens=list(toks))
                sim2 = None
                if use_sim:
                    sim2 = sim.copy()
                    want = sim2.feed(('tok', t)) == 'shift'
                    if want != ok:
                        bad('feed-vs-automaton', 'automaton', 'shift' if want else 'error', 'ok' if ok else 'UnexpectedToken', tokens=list(toks) + [t])
                        continue
                if ok:
                    ip2 = f[1]
                    key = tuple(id(s) for s in ip2.parser_state.state_stack)
                    accepted_key = toks + (t,)
                    if key in seen:
                        res['counters']['walk: configurations merged on equal state stack'] += 1
                        accepted[accepted_key] = None    # decided through the merged configuration
                        continue
                    seen.add(key)
                    nxt.append((ip2, sim2, accepted_key))
        frontier = nxt
    # (4) parse(text) under both lexers agrees with the automaton walk / CFG
    if only is None or True:
        for lexer in ('basic', 'contextual'):
            r2 = larkio.build(gtext, parser='lalr', lexer=lexer)
            res['evals'] += 1
            if r2[0] != 'ok':
                if not reduced and r2[0] == 'exc' and isinstance(r2[1], GrammarError):
                    res['counters']['non-reduced grammar: conflict clause not judged'] += 1
                else:
                    bad('construction-differs', 'construction', 'constructed (as with debug=True)', repr(r2[1])[:200], lexer=lexer)
                continue
            p2 = r2[1]
            for w in util.strings([t.lower() for t in terms], L):
                toks = tuple(c.upper() for c in w)
                pr = larkio.parse(p2, w, timeout=3)
                res['evals'] += 1
                o = larkio.outcome(pr)
                if o == 'hang' and ((may_loop and (not reduced or not use_sim or _sim_loops(ref, toks))) or ref_loops(toks, '$END') or any(ref_loops(toks[:i_], toks[i_]) for i_ in range(len(toks)))):
                    res['counters']['diverges exactly where the priority-resolved reference automaton loops (cyclic grammar)'] += 1
                    break
                if o not in ('accept', 'reject'):
                    bad('parse-' + o, 'hang' if o == 'hang' else 'error-class', 'tree or UnexpectedInput', o, lexer=lexer, input=w)
                    if o == 'hang':
                        break
                    continue
                cfg = refsem.accepts(g, refsem.Edges.tokens(g, [('tok', t) for t in toks]))
                if o == 'accept' and not cfg:
                    bad('unsound-accept', 'soundness', 'reject', 'accept', lexer=lexer, input=w)
                if o == 'reject' and cfg and reduced and not sr and not rr:
                    bad('incomplete', 'completeness', 'accept', 'reject', lexer=lexer, input=w)
                if use_sim:
                    s = ref.sim()
                    want = all(s.feed(('tok', t)) == 'shift' for t in toks) and s.feed(reflalr.END) == 'accept'
                    if want != (o == 'accept'):
                        bad('parse-vs-automaton', 'automaton', 'accept' if want else 'reject', o, lexer=lexer, input=w)
    if len(res['samples']) < 2 and reduced and sr:
        res['samples'].append({'grammar': gtext, 'lr1_states': ref.lr1_states, 'lalr_states': len(ref.cores),
                               'shift_reduce_conflicts': len(sr), 'configurations_walked': len(seen),
                               'accepted_token_strings': [list(k) for k, v in accepted.items() if v][:4]})


def check_multistart(g, gi, boxname, b, res, only=None):
    """Lark(start=[...]): one table with several start states.  For every start symbol the real automaton entered through
    parse_interactive(start=s) is walked against the reference automaton of the grammar with that start symbol."""
    gtext = g.text()
    L = b['L']
    terms = b['alpha']
    starts = b['starts']
    if refsem.productive(g) != set(g.rules):
        res['counters']['multi-start: non-reduced grammar skipped'] += 1
        return
    ref_all = reflalr.RefLALR(g, starts=starts)        # ONE automaton with a root production per start symbol
    refs = {s_: ref_all for s_ in starts}
    case0 = {'box': boxname, 'gidx': gi, 'grammar': gtext, 'starts': list(starts)}

    def bad(kind, cause, exp, got, **extra):
        res['viol'].append({'kind': kind, 'cause': cause, 'case': dict(case0, **extra), 'expected': exp, 'observed': got})
    any_rr = any(r_.rr_conflicts() for r_ in refs.values())
    r = larkio.build(gtext, parser='lalr', start=list(starts))
    res['evals'] += 1
    if r[0] != 'ok':
        if r[0] == 'exc' and isinstance(r[1], GrammarError) and any_rr:
            res['counters']['reduce/reduce conflict reported (agrees with reference)'] += 1
        else:
            bad('spurious-conflict' if r[0] == 'exc' else 'construction-hang', 'conflict-report', 'a parser (no reduce/reduce conflict from any start symbol)', repr(r[1])[:300])
        return
    if any_rr:
        bad('conflict-not-reported', 'conflict-report', 'GrammarError', 'parser constructed')
        return
    p = r[1]
    for s_ in starts:
        ref = refs[s_]
        frontier = [(p.parse_interactive(start=s_).as_immutable(), ref.sim(start=s_), ())]
        seen = set()
        while frontier:
            nxt = []
            for ip, sim, toks in frontier:
                res['states'] += 1
                res['nontrivial'] += 1 if toks else 0
                ch = {k for k in ip.choices() if k.isupper() or k == '$END'}
                want_ch = {sym_name(x) for x in sim.terminals()}
                if ch != want_ch:
                    bad('choices', 'choices', sorted(want_ch), sorted(ch), start=s_, tokens=list(toks))
                e = util.timed(lambda: ip.as_mutable().feed_eof(), 3)
                res['transitions'] += 1
                want = sim.copy().feed(reflalr.END) == 'accept'
                if (e[0] == 'ok') != want:
                    bad('eof-vs-automaton', 'automaton', 'accept' if want else 'reject', e[0], start=s_, tokens=list(toks))
                if len(toks) >= L:
                    continue
                for t in terms:
                    f = util.timed(lambda: ip.feed_token(Token(t, t.lower())), 3)
                    res['transitions'] += 1
                    res['traces'] += 1
                    sim2 = sim.copy()
                    want = sim2.feed(('tok', t)) == 'shift'
                    if (f[0] == 'ok') != want:
                        bad('feed-vs-automaton', 'automaton', 'shift' if want else 'error', f[0], start=s_, tokens=list(toks) + [t])
                        continue
                    if f[0] == 'ok':
                        key = tuple(f[1].parser_state.state_stack)
                        if key not in seen:
                            seen.add(key)
                            nxt.append((f[1], sim2, toks + (t,)))
            frontier = nxt
        # parse(text, start=s) agrees
        for w in util.strings([t.lower() for t in terms], L):
            pr = larkio.parse(p, w, timeout=3, start=s_)
            res['evals'] += 1
            sm = ref.sim(start=s_)
            want = all(sm.feed(('tok', c.upper())) == 'shift' for c in w) and sm.feed(reflalr.END) == 'accept'
            if (larkio.outcome(pr) == 'accept') != want:
                bad('parse-vs-automaton', 'automaton', 'accept' if want else 'reject', larkio.outcome(pr), start=s_, input=w)


def _sim_loops(ref, toks):
    s = ref.sim()
    for t in toks:
        r = s.feed(('tok', t))
        if r == 'loop':
            return True
        if r != 'shift':
            return False
    return s.feed(reflalr.END) == 'loop'


def _act(ref, a):
    if a is None:
        return None
    if a[0] == 's':
        return 'shift'
    lhs, rhs, _ = ref.rules[a[1]]
    return 'reduce %s -> %s' % (lhs, ' '.join(sym_name(s) for s in rhs) or '(empty)')


class _Run(FamRun):
    def work(self, item):
        self._L = item[-1]
        return super().work(item)


def _box(name):
    b = box(name)
    return b


_run = FamRun(box, TIERS, None, chunk=64)


def _check(g, gi, boxname, b, inputs, res, only=None):
    b = dict(b, L=_check.L)
    if b.get('starts'):
        check_multistart(g, gi, boxname, b, res, only)
    else:
        check(g, gi, boxname, b, inputs, res, only)


_run.check = _check
_check.L = 4
plan, bounds = _run.plan, _run.bounds


def work(item):
    _check.L = item[-1]
    it = _run.work(item)
    return it


def replay(case):
    for tier in TIERS.values():
        for n, k, L in tier:
            if n == case['box']:
                _check.L = L
    return _run.replay(case)
