"""C05 -- default ambiguity resolution is priority-optimal and deterministic (DESIGN.md section 4, C05)."""
import hashlib
import json
import os
import subprocess
import sys

from .. import families, gram, refsem, larkio, util, obs
from ..gram import Term, Rule, Grammar
from ..famrun import FamRun, new_res
from .c04 import norm_lark, norm_ref

ID = 'C05'
LEVEL = 'exploration'
RULE = ('every acyclic grammar of the plain-BNF families x rule/terminal priority assignment x priority mode '
        '(normal, invert, None) x lexer x every input is parsed with ambiguity=resolve; the result must be a reference '
        'derivation, priority-optimal (max / min of the summed priorities over all derivations; empty-alternative '
        'precedence clause for grammars with directly empty alternatives), equal to the priority-erased grammar under '
        'priority=None, and bit-identical across repeated calls, fresh instances and sub-processes started under other '
        'PYTHONHASHSEED values. Non-trivial = input with >= 2 derivations; distinct by construction')
ASSUMPTIONS = ['reference derivation enumerator refsem.Derivations (cap 256)', 'hash seeds: a bounded set (quick 4, thorough 17 seeds), not all 2^32',
               'CPython re for single-terminal membership']
DEADLINE = {'quick': 900, 'thorough': 3 * 3600}

PRIOS = {'n': None, 'm': -1, '1': 1, '2': 2}
MODES = ('normal', 'invert', None)
HSEEDS = {'quick': (1, 2, 3), 'thorough': tuple(range(1, 16)) + (987654321,)}


def tp_render(pa, pb):
    return {'p': (('tok', 'A'), [Term('A', (('str', 'a', ''),), pa)]),
            'q': (('tok', 'B'), [Term('B', (('str', 'a', ''),), pb)])}


class LONG:
    """Rules with three and four symbols: `start: S1 S2 S3 [S4]`, Si in {a, b, X}; a: X | c ; b: X | d ; c.P: X X ; d.Q: X X
    (both orders of the alternatives of a and b; P, Q in {none, -1, 1, 2}).  The competing derivations differ in the split
    point between *leading* symbols of the long rule (packed under an intermediate forest node) and in nothing but the
    priorities of the rules used further down."""
    PQ = (None, -1, 1, 2)

    def __init__(self):
        import itertools
        self.items = [(syms, oa, ob, P, Q) for n in (3, 4) for syms in itertools.product('abX', repeat=n)
                      if sum(s != 'X' for s in syms) >= 2
                      for oa in (0, 1) for ob in (0, 1) for P in self.PQ for Q in self.PQ if (P, Q) != (None, None)]

    def __len__(self):
        return len(self.items)

    def grammar(self, idx):
        syms, oa, ob, P, Q = self.items[idx]
        X = ('tok', 'X')
        alts = lambda sub, o: tuple([((X,), None), ((('ref', sub),), None)][::-1 if o else 1])
        rules = [Rule('start', '', None, ((tuple(X if s == 'X' else ('ref', s) for s in syms), None),)),
                 Rule('a', '', None, alts('c', oa)), Rule('c', '', P, (((X, X), None),))]
        if 'b' in syms:
            rules += [Rule('b', '', None, alts('d', ob)), Rule('d', '', Q, (((X, X), None),))]
        elif ob or Q is not None:
            return None         # b unused: one representative
        return Grammar(rules, [Term('X', (('str', 'x', ''),), 0)])


def box(name):
    """x1/s<p>a<p>  : BNF(2,{x},2,2), priorities of start and a;  k3/a<p>b<p>;  tp/<pa><pb>a<p>: colliding terminals."""
    B = families.BNF
    base, _, spec = name.partition('/')
    if base == 'x1':
        mods = {'start': ('', PRIOS[spec[1]]), 'a': ('', PRIOS[spec[3]])}
        return dict(fam=B(2, 'x', 2, 2, render='tok', mods=mods), alpha='x', lexers=('basic', 'dynamic'))
    if base == 'x2':
        mods = {'start': ('', PRIOS[spec[1]]), 'a': ('', PRIOS[spec[3]])}
        return dict(fam=B(2, 'xy', 2, 2, render='tok', mods=mods), alpha='xy', lexers=('basic', 'dynamic'))
    if base == 'k3':
        mods = {'a': ('', PRIOS[spec[1]]), 'b': ('', PRIOS[spec[3]])}
        return dict(fam=B(3, 'x', (2, 2, 2), (2, 2, 1), render='tok', mods=mods), alpha='x', lexers=('basic', 'dynamic'))
    if base == 'eb':        # EBNF bodies (optional items, [..] with placeholders) around a prioritised helper competing with rule b.1
        helpers = [((families.X,),), ((families.X, ('maybe', ((families.Y,),))),), ((families.X, ('opt', families.Y)),), ((('maybe', ((families.X,),)), families.Y),)]
        return dict(fam=families.EBNF(1 if spec.endswith('/1') else 2, helpers=helpers, helper_prio=PRIOS[spec[1]], start_alts=(((('ref', 'b'),), None), ((('ref', 'b'), ('ref', 'b')), None))),
                    alpha='xy', lexers=('basic', 'dynamic'))
    if base == 'long':
        return dict(fam=LONG(), alpha='x', lexers=('basic', 'dynamic'))
    if base == 'tp':
        tprio = {'0': 0, '1': 1, 'm': -1}
        mods = {'a': ('', PRIOS[spec[3]])}
        return dict(fam=B(2, 'pq', 2, 2, render=tp_render(tprio[spec[0]], tprio[spec[1]]), mods=mods), alpha='a',
                    lexers=('dynamic', 'dynamic_complete'), with_terms=True)
    raise KeyError(name)


def _tiers():
    q, t = [], []
    for s in 'n1':
        for a in 'nm12':
            if s == 'n' and a == 'n':
                continue
            q.append(('x1/s%sa%s' % (s, a), 2, 4))
            t.append(('x1/s%sa%s' % (s, a), 1, 5))
    for a, b in (('1', 'n'), ('1', '2'), ('m', '1'), ('2', '2')):
        q.append(('k3/a%sb%s' % (a, b), 64, 4))
        t.append(('k3/a%sb%s' % (a, b), 4, 4))
    for tpn in ('01n', '101', 'm1n', '1mm', '012'):
        q.append(('tp/%sa%s' % (tpn[:2], tpn[2]), 16, 4))
        t.append(('tp/%sa%s' % (tpn[:2], tpn[2]), 1, 4))
    for a in '1m':
        t.append(('x2/sna%s' % a, 2, 4))
    for a in '2m':
        q.append(('eb/a%s/1' % a, 1, 3))    # one-item bodies: complete
        q.append(('eb/a%s' % a, 8, 3))
        t.append(('eb/a%s' % a, 1, 4))
    q.append(('long', 2, 7))
    t.append(('long', 1, 8))
    return {'quick': q, 'thorough': t}


TIERS = _tiers()


def erase_priorities(g):
    rules = [Rule(r.name, r.mod, None, r.alts, r.params) for r in g.rules.values()]
    terms = [Term(t.name, t.pats, 0) for t in g.terms.values()]
    return Grammar(rules, terms, g.ignore, g.start)


def check(g, gi, boxname, b, inputs, res, only=None, digest=None, ref=True):
    if refsem.cyclic(g):
        res['counters']['skipped: cyclic grammar'] += 1
        return
    gtext = g.text()
    named = set(g.terms)
    has_empty = any(len(s) == 0 for r in g.rules.values() for s, _ in r.alts)
    ebnf_empty = has_empty_expansion(g) and not has_empty
    with_terms = b.get('with_terms', False)
    etext = erase_priorities(g).text()
    for lexer in b['lexers']:
        if only and only['lexer'] != lexer:
            continue
        mode = 'longest' if lexer == 'dynamic' else 'exact'
        refs = {}
        if ref:
            for w in inputs:
                try:
                    D = refsem.derivations(g, refsem.Edges.chars(g, w, mode))
                except refsem.TooAmbiguous:
                    res['counters']['skipped: more than 256 derivations'] += 1
                    continue
                if len(D) >= 2:
                    refs[w] = D
            if not refs and digest is None:
                continue
        plain = None
        for pm in MODES:
            if only and only['priority'] != pm:
                continue
            r = larkio.build(gtext, parser='earley', lexer=lexer, ambiguity='resolve', priority=pm)
            res['evals'] += 1
            if r[0] == 'exc' and 'Rules defined twice' in str(r[1]) and refsem.construction_may_fail(g):
                res['counters']['construction: documented GrammarError (colliding optionals)'] += 1
                continue
            if r[0] != 'ok':
                res['viol'].append({'kind': 'construction-' + larkio.outcome(r), 'cause': 'construction',
                                    'case': {'box': boxname, 'gidx': gi, 'grammar': gtext, 'lexer': lexer, 'priority': pm},
                                    'expected': 'constructed', 'observed': repr(r[1])[:300]})
                continue
            p = r[1]
            p2 = None
            for w in (inputs if digest is not None else refs):
                case = {'box': boxname, 'gidx': gi, 'grammar': gtext, 'lexer': lexer, 'priority': pm, 'input': w}

                def bad(kind, cause, exp, got):
                    res['viol'].append({'kind': kind, 'cause': cause, 'case': case, 'expected': exp, 'observed': got})
                pr = larkio.parse(p, w)
                res['evals'] += 1
                o = norm_lark(obs.canon(pr[1]), named) if pr[0] == 'ok' else (pr[0], type(pr[1]).__name__)
                if digest is not None:
                    digest.append(((boxname, gi, lexer, pm, w), o))
                if w not in refs:
                    continue
                D = refs[w]
                res['nontrivial'] += 1
                if pr[0] != 'ok':
                    bad('error', 'language', 'a tree', repr(pr[1])[:200])
                    continue
                # determinism inside the process: second call, fresh instance
                pr2 = larkio.parse(p, w)
                if p2 is None:
                    p2 = larkio.build(gtext, parser='earley', lexer=lexer, ambiguity='resolve', priority=pm)[1]
                pr3 = larkio.parse(p2, w)
                res['evals'] += 2
                for x, what in ((pr2, 'second call on the same instance'), (pr3, 'fresh instance')):
                    o2 = norm_lark(obs.canon(x[1]), named) if x[0] == 'ok' else (x[0],)
                    if o2 != o:
                        bad('nondeterministic', 'determinism', o, {what: o2})
                byshape = {}
                shaped = boxname.startswith('eb/')      # EBNF bodies: the returned tree is the *shaped* derivation (placeholders)
                for d in D:
                    key = norm_ref(refsem.shape(d, g, w, False, True)) if shaped else norm_ref(refsem.unshaped(d, w))
                    byshape.setdefault(key, []).append(d)
                if o not in byshape:
                    bad('not-a-derivation', 'member', 'one of %d derivations' % len(D), o)
                    continue
                pri_all = {x: refsem.priority(x, g, with_terms) for x in D}
                d = (max if pm != 'invert' else min)(byshape[o], key=lambda x: pri_all[x])      # the best derivation with this shape
                if pm is None:
                    if plain is None:
                        plain = larkio.build(etext, parser='earley', lexer=lexer, ambiguity='resolve')[1]
                    pe = larkio.parse(plain, w)
                    oe = norm_lark(obs.canon(pe[1]), named) if pe[0] == 'ok' else (pe[0],)
                    if oe != o:
                        bad('priority-none-differs', 'priority-none', oe, o)
                    continue
                pri = {x: refsem.priority(x, g, with_terms) for x in D}
                best = max(pri.values()) if pm == 'normal' else min(pri.values())
                if ebnf_empty:
                    res['counters']['EBNF body with an empty expansion: optimum not judged'] += 1
                elif not has_empty:
                    if pri[d] != best:
                        bad('suboptimal-' + pm, 'optimum-' + pm, {'best_priority': best, 'a_best_tree': norm_ref(refsem.unshaped(
                            [x for x in D if pri[x] == best][0], w))}, {'priority': pri[d], 'tree': o})
                    elif len(set(pri.values())) > 1 and len(res['samples']) < 2:
                        res['samples'].append({'grammar': gtext, 'lexer': lexer, 'priority_mode': pm, 'input': w,
                                               'derivation_priorities': sorted(pri.values()), 'chosen': pri[d]})
                else:
                    res['counters']['cases judged by the empty-alternative clause only'] += 1
                    v = empty_clause(d, g, refsem.Derivations(g, refsem.Edges.chars(g, w, mode)))
                    if v:
                        bad('empty-alternative-precedence', 'empty-precedence', v, o)


def has_empty_expansion(g):
    """Does some rule have an expansion (after ? [..] * ~0..) without any symbol?"""
    for r in g.rules.values():
        for seq, _ in r.alts:
            try:
                if any(not refsem._erase(e) for e in refsem._expansions(seq, True, [])):
                    return True
            except refsem.TooAmbiguous:
                return True
    return False


def empty_clause(d, g, DV):
    """Where the returned derivation applies A -> (empty), no non-empty alternative of A may derive the same
    (empty) span."""
    _, rname, ai, events = d
    # span of an empty application is (i,i); find i from the surrounding tokens is not needed: a non-empty
    # alternative deriving empty at *any* position derives it at every position (no tokens involved)
    if len(g.rules[rname].alts[ai][0]) == 0:
        for i in range(DV.E.n + 1):
            for nd in DV.D[rname][i].get(i, ()):
                if len(g.rules[rname].alts[nd[2]][0]) != 0:
                    return 'rule %s: non-empty alternative %d also derives the empty span' % (rname, nd[2])
            break
    for ev in events:
        if ev[0] == 'n':
            v = empty_clause(ev, g, DV)
            if v:
                return v
    return None


_run = FamRun(box, TIERS, check, chunk=40)
bounds, replay = _run.bounds, _run.replay


def det_items(tier, seed):
    """Sub-box re-run under other hash seeds in sub-processes."""
    sel = [x for x in TIERS[tier] if x[0] in ('x1/s1a2', 'x1/snam', 'k3/a1b2', 'tp/101')]
    items = []
    for name, k, L in sel:
        k2 = k * (4 if tier == 'quick' else 1)
        n = len(families.slice_indices(len(box(name)['fam']), k2, seed))
        for lo in range(0, n, 120):
            base = (name, k2, seed % k2, lo, min(n, lo + 120), min(L, 4))
            for hs in (0,) + HSEEDS[tier]:
                items.append(('det',) + base + (hs,))
    return items


def plan(tier, seed):
    return [('chk',) + it for it in _run.plan(tier, seed)] + det_items(tier, seed)


def digest_item(base):
    name, k, r, lo, hi, L = base
    b = box(name)
    inputs = list(util.strings(b['alpha'], L))
    out = []
    res = new_res()
    for gi in families.slice_indices(len(b['fam']), k, r)[lo:hi]:
        g = b['fam'].grammar(gi)
        if g is not None:
            check(g, gi, name, b, inputs, res, digest=out, ref=False)
    return out


def work(item):
    if item[0] == 'chk':
        return _run.work(item[1:])
    base, hs = item[1:-1], item[-1]
    res = new_res()
    if hs == 0:
        out = digest_item(base)
    else:
        env = dict(os.environ, PYTHONHASHSEED=str(hs))
        p = subprocess.run([sys.executable, '-m', 'lmc.props.c05', json.dumps(base)], env=env, capture_output=True, text=True, timeout=1200)
        if p.returncode != 0:
            raise RuntimeError('digest subprocess failed: ' + p.stderr[-500:])
        out = [(tuple(k), v) for k, v in json.loads(p.stdout)]
    res['evals'] = len(out)
    res['counters']['determinism: results compared across hash seeds'] = len(out)
    res['counters'] = dict(res['counters'])
    canon = [(list(k), util.jsonable(v)) for k, v in out]
    res['extra'] = {'base': list(base), 'hseed': hs, 'digest': util.digest(canon), 'rows': canon}
    return res


def finalize(extra, tier, seed):
    groups = {}
    for e in extra:
        groups.setdefault(tuple(e['base']), []).append(e)
    viol = []
    for base, es in groups.items():
        ref = min(es, key=lambda e: e['hseed'])
        for e in es:
            if e['digest'] != ref['digest']:
                first = next(((a, b) for a, b in zip(ref['rows'], e['rows']) if a != b), None)
                k = first[0][0] if first else None
                viol.append({'kind': 'hash-seed-dependence', 'cause': 'determinism',
                             'case': {'base': list(base), 'hseeds': [ref['hseed'], e['hseed']], 'first_case': k},
                             'expected': first[0][1] if first else None, 'observed': first[1][1] if first else None})
    return {'viol': viol, 'coverage': {'hash_seeds': sorted({e['hseed'] for e in extra}), 'determinism_groups': len(groups)}}


_replay_fam = replay


def replay(case):
    if 'base' in case:
        outs = []
        for hs in case['hseeds']:
            env = dict(os.environ, PYTHONHASHSEED=str(hs))
            p = subprocess.run([sys.executable, '-m', 'lmc.props.c05', json.dumps(case['base'])], env=env, capture_output=True, text=True)
            outs.append(p.stdout)
        if outs[0] != outs[1]:
            return [{'kind': 'hash-seed-dependence', 'cause': 'determinism', 'case': case, 'observed': 'digests differ'}]
        return []
    return _replay_fam(case)


if __name__ == '__main__':
    rows = digest_item(tuple(json.loads(sys.argv[1])))
    print(json.dumps([(list(k), util.jsonable(v)) for k, v in rows]))
