"""C13 -- interactive parser: forks independent, accepts() exact, resume equals parse (DESIGN.md section 4, C13)."""
import copy as _copy

from lark import Lark, Token, Tree, Transformer
from lark.exceptions import UnexpectedInput, UnexpectedToken

from .. import larkio, util, obs
from ..famrun import new_res

ID = 'C13'
LEVEL = 'model_checking'
RULE = ('explicit-state breadth-first search over fork trees on the real objects: a state is a set of <= 3 live handles '
        '(InteractiveParser / ImmutableInteractiveParser) reached by a history of operations feed_token(h,t) for every terminal '
        '(legal or not), copy, as_immutable, as_mutable, immutable feed_token, accepts, feed_eof; states are rebuilt by replaying '
        'the history on fresh objects and deduplicated on an alias-preserving heap fingerprint. Invariant in every state, for '
        'every handle (finished results included): state stack, value stack (tokens, positions, full meta), accepts() and '
        'result equal those of a fresh interactive parser fed the handle\'s own token history; accepts() == {t | feeding t to a '
        'fresh replay succeeds}; token history + feed_eof == parse(text). Part B: text-attached handles under copy / '
        'as_immutable / resume_parse / exhaust_lexer with the lexer position of every handle observed. states = distinct '
        'fingerprints, transitions = operations applied on the implementation, traces = operation histories replayed')
ASSUMPTIONS = ['a fresh interactive parser fed the same tokens is the reference (the automaton itself is judged by C02)',
               'depth and handle bounds as in coverage.bounds; tokens are fresh objects per feed with positions derived from the history index']
DEADLINE = {'quick': 900, 'thorough': 3 * 3600}


class Tag(Transformer):
    """A pure embedded transformer: tagged tuples for named rules and named terminals (defaults untouched)."""


def _mk(name):
    return lambda self, children: ('node', name, tuple(children))


for _n in ('start', 'x', 'b', 'y', 'g', 'f', 'e'):
    setattr(Tag, _n, _mk(_n))
for _n in ('A', 'B', 'X'):
    setattr(Tag, _n, lambda self, t: ('tok', t.type, str(t)))


GRAMMARS = [
    # name, grammar, terminals (type -> text), depth bonus
    ('inl-leftrec', 'start: _l\n_l: _l C x | x\nx: A\nA: "a"\nC: ","\n', {'A': 'a', 'C': ','}),
    ('rightrec', 'start: x C start | x\nx: A\nA: "a"\nC: ","\n', {'A': 'a', 'C': ','}),
    ('star', 'start: (A | b)*\nb: B\nA: "a"\nB: "b"\n', {'A': 'a', 'B': 'b'}),
    ('q-container', 'start: x\n?x: y _C _RP | y _C _RB _RB\ny: A\nA: "a"\n_C: ","\n_RP: ")"\n_RB: "]"\n', {'A': 'a', '_C': ',', '_RP': ')', '_RB': ']'}),
    ('nullable-tail', 'start: A b\nb: | B b\nA: "a"\nB: "b"\n', {'A': 'a', 'B': 'b'}),
    ('merged-la', 'start: O g C | P g D\ng: f\nf: e | e Z\ne: X\nO: "o"\nP: "p"\nC: "c"\nD: "d"\nZ: "z"\nX: "x"\n',
     {'O': 'o', 'P': 'p', 'X': 'x', 'Z': 'z', 'C': 'c', 'D': 'd'}),
    ('merged-la2', 'start: L g R | M g S\ng: f\nf: e | e W\ne: Y\nL: "l"\nM: "m"\nR: "r"\nS: "s"\nW: "w"\nY: "y"\n',
     {'L': 'l', 'M': 'm', 'Y': 'y', 'W': 'w', 'R': 'r', 'S': 's'}),
    ('merged-la3', 'start: B1 g E1 | B2 g E2 | B3 g E3\ng: f\nf: e | e T\ne: V\nB1: "1"\nB2: "2"\nB3: "3"\nE1: "a"\nE2: "b"\nE3: "c"\nT: "t"\nV: "v"\n',
     {'B1': '1', 'B2': '2', 'B3': '3', 'V': 'v', 'T': 't', 'E1': 'a', 'E2': 'b', 'E3': 'c'}),
    ('merged-la4', 'start: KA g QA | KB g QB\ng: f\nf: e | e HH\ne: NN\nKA: "k"\nKB: "j"\nQA: "q"\nQB: "u"\nHH: "h"\nNN: "n"\n',
     {'KA': 'k', 'KB': 'j', 'NN': 'n', 'HH': 'h', 'QA': 'q', 'QB': 'u'}),
    ('sep-inl', 'start: item (_sep item)*\nitem: A\n_sep: _C\nA: "a"\n_C: ","\n', {'A': 'a', '_C': ','}),
    # an inlined left-recursive list shared by two bracket contexts: a wrong closing bracket is rejected only *after* the
    # list step `_s: _s C x` has been reduced (merged look-ahead), i.e. after the in-place child-list append
    ('merged-inl', 'start: (lst | tup)+\nlst: L _s R\ntup: P _s Q\n_s: x | _s C x\nx: A\nL: "["\nR: "]"\nP: "("\nQ: ")"\nC: ","\nA: "a"\n',
     {'L': '[', 'R': ']', 'P': '(', 'Q': ')', 'C': ',', 'A': 'a'}),
    # line breaks between the tokens: the fork's own lexer must keep counting lines and columns where the original stood
    ('multiline', 'start: (A | b)*\nb: B\nA: "a"\nB: "b"\n%ignore /[ \\n]+/\n', {'A': 'a', 'B': 'b'}),
    ('plus-inl', 'start: _i+ E\n_i: A B?\nA: "a"\nB: "b"\nE: "e"\n', {'A': 'a', 'B': 'b', 'E': 'e'}),
]
OPTS = [('plain', {}), ('pos', {'propagate_positions': True}), ('ph', {'maybe_placeholders': True, 'keep_all_tokens': True}),
        ('tr', {'transformer': 'Tag'})]


def mk_parser(gtext, opts):
    o = dict(opts)
    if o.get('transformer') == 'Tag':
        o['transformer'] = Tag()
    return Lark(gtext, parser='lalr', **o)


def mk_token(t, text, i):
    return Token(t, text, start_pos=i, line=1, column=i + 1, end_line=1, end_column=i + 1 + len(text), end_pos=i + len(text))


class Handle:
    __slots__ = ('obj', 'kind', 'hist', 'result', 'done')

    def __init__(self, obj, kind, hist=(), result=None, done=False):
        self.obj, self.kind, self.hist, self.result, self.done = obj, kind, hist, result, done


def observe(h, with_accepts=True):
    ps = h.obj.parser_state
    o = {'state_stack': tuple(ps.state_stack), 'value_stack': obs.canon(list(ps.value_stack), pos=True, meta=True)}
    if h.done:
        o['result'] = obs.canon(h.result, pos=True, meta=True)
    elif with_accepts:
        o['accepts'] = tuple(sorted(h.obj.accepts()))
    return o


def fresh(p, terms, hist, cache):
    """Observation of a fresh interactive parser fed the history (failed feeds and eof included)."""
    if hist in cache:
        return cache[hist]
    ip = p.parse_interactive()
    h = Handle(ip, 'm', hist)
    i = 0
    for t, ok in hist:
        if t == '$EOF':
            try:
                h.result = ip.feed_eof()
                h.done = True
            except UnexpectedInput:
                pass
            continue
        try:
            ip.feed_token(mk_token(t, terms[t], i))
        except UnexpectedToken:
            pass
        i += 1
    o = observe(h, with_accepts=False)
    if not h.done:
        acc = set()
        for t in list(terms) + ['$END']:
            ip2 = p.parse_interactive()
            j = 0
            try:
                for t2, _ in hist:
                    if t2 == '$EOF':
                        continue
                    try:
                        ip2.feed_token(mk_token(t2, terms[t2], j))
                    except UnexpectedToken:
                        pass
                    j += 1
                if t == '$END':
                    ip2.feed_eof()
                else:
                    ip2.feed_token(mk_token(t, terms[t], j))
                acc.add(t)
            except UnexpectedInput:
                pass
        o['accepts'] = tuple(sorted(acc))
    cache[hist] = o
    return o


def apply_op(p, terms, handles, op):
    """Apply one operation in place on the list of harness handles.  Returns False if the op is not enabled."""
    name, hi = op[0], op[1]
    h = handles[hi]
    if h.done:
        return False
    ntok = sum(1 for t, _ in h.hist if t != '$EOF')
    if name == 'feed':
        t = op[2]
        tok = mk_token(t, terms[t], ntok)
        if h.kind == 'm':
            try:
                h.obj.feed_token(tok)
                h.hist += ((t, True),)
            except UnexpectedToken:
                h.hist += ((t, False),)
        else:
            if len(handles) >= 3:
                return False
            try:
                n = h.obj.feed_token(tok)
                handles.append(Handle(n, 'i', h.hist + ((t, True),)))
            except UnexpectedToken:
                pass        # an immutable parser is unchanged by a failed feed: nothing new to track
    elif name == 'copy':
        if len(handles) >= 3:
            return False
        handles.append(Handle(h.obj.copy() if op[2] == 'copy' else _copy.copy(h.obj), h.kind, h.hist))
    elif name == 'imm':
        if len(handles) >= 3 or h.kind != 'm':
            return False
        handles.append(Handle(h.obj.as_immutable(), 'i', h.hist))
    elif name == 'mut':
        if len(handles) >= 3 or h.kind != 'i':
            return False
        handles.append(Handle(h.obj.as_mutable(), 'm', h.hist))
    elif name == 'accepts':
        h.obj.accepts()
    elif name == 'eof':
        if h.kind == 'm':
            try:
                h.result = h.obj.feed_eof()
                h.done = True
                h.hist += (('$EOF', True),)
            except UnexpectedInput:
                h.hist += (('$EOF', False),)
        else:
            if len(handles) >= 3:
                return False
            try:
                n = h.obj.feed_eof()
                handles.append(Handle(n, 'i', h.hist + (('$EOF', True),), n.result, True))
            except UnexpectedInput:
                pass
    else:
        raise KeyError(op)
    return True


def ops_for(handles, terms, lean=False):
    if lean:
        # deep-and-narrow mode: only feeds the parser accepts, copy() and feed_eof; at most 2 handles
        for hi, h in enumerate(handles):
            if h.done:
                continue
            acc = h.obj.accepts()
            for t in terms:
                if t in acc:
                    yield ('feed', hi, t)
            if len(handles) < 2:
                yield ('copy', hi, 'copy')
            if '$END' in acc:
                yield ('eof', hi)
        return
    for hi, h in enumerate(handles):
        if h.done:
            continue
        for t in terms:
            yield ('feed', hi, t)
        yield ('copy', hi, 'copy')
        yield ('copy', hi, 'copy.copy')
        yield ('imm', hi)
        yield ('mut', hi)
        yield ('accepts', hi)
        yield ('eof', hi)


def fingerprint(handles):
    """Alias-preserving: every mutable container reachable from the handles is numbered at first visit."""
    ids = {}
    out = []

    def walk(x):
        if isinstance(x, (list, tuple)):
            out.append(('L', ids.setdefault(id(x), len(ids)) if isinstance(x, list) else -1, len(x)))
            for y in x:
                walk(y)
        elif isinstance(x, Tree):
            again = id(x) in ids
            out.append(('T', ids.setdefault(id(x), len(ids)), str(x.data), ids.setdefault(id(x._meta), len(ids)) if getattr(x, '_meta', None) is not None else -1))
            if not again:       # a shared (or, when corrupted, cyclic) tree is described once; later visits are references
                walk(x.children)
        elif isinstance(x, Token):
            out.append(('K', x.type, str(x), x.start_pos))
        else:
            out.append(('V', repr(x)[:40]))
    for h in handles:
        out.append(('H', h.kind, h.hist, h.done, tuple(h.obj.parser_state.state_stack)))
        walk(h.obj.parser_state.value_stack)
        if h.done:
            walk(h.result)
    return hash(tuple(out)), tuple(out)


def rebuild(p, terms, history):
    handles = [Handle(p.parse_interactive(), 'm')]
    for op in history:
        if not apply_op(p, terms, handles, op):
            return None
    return handles


def check_state(p, terms, handles, cache, history, res, cfg):
    """The invariant: every handle equals a fresh parser fed its own history."""
    first = [observe(h, with_accepts=False) for h in handles]
    full = [observe(h) for h in handles]            # calls accepts() on every live handle
    again = [observe(h, with_accepts=False) for h in handles]
    ok = True
    for i, h in enumerate(handles):
        want = fresh(p, terms, h.hist, cache)
        got = full[i]
        if first[i] != again[i]:
            res['viol'].append({'kind': 'accepts-mutates', 'cause': 'accepts-side-effect', 'case': dict(cfg, history=[list(o) for o in history], handle=i),
                                'expected': first[i], 'observed': again[i]})
            ok = False
        elif got != want:
            diff = [k for k in want if want[k] != got.get(k)]
            res['viol'].append({'kind': 'handle-differs-from-fresh-replay:' + ','.join(diff), 'cause': 'fork-' + diff[0],
                                'case': dict(cfg, history=[list(o) for o in history], handle=i, handle_history=[list(x) for x in h.hist]),
                                'expected': {k: want[k] for k in diff}, 'observed': {k: got.get(k) for k in diff}})
            ok = False
    return ok


def explore(gi, oi, depth, res, only=None, lean=False):
    name, gtext, terms = GRAMMARS[gi]
    oname, opts = OPTS[oi]
    cfg = {'grammar_name': name, 'grammar': gtext, 'options': oname, 'item': [gi, oi, depth], 'lean': lean}
    try:
        p = mk_parser(gtext, opts)
    except Exception as e:
        res['viol'].append({'kind': 'construction', 'cause': 'construction', 'case': cfg, 'expected': 'constructed', 'observed': repr(e)[:200]})
        return
    cache = {}
    if only is not None:
        hist = [tuple(o) for o in only['history']]
        handles = rebuild(p, terms, hist)
        if handles is not None:
            check_state(p, terms, handles, cache, hist, res, cfg)
        return
    seen = set()
    frontier = [()]
    h0 = rebuild(p, terms, ())
    seen.add(fingerprint(h0)[0])
    res['states'] += 1
    check_state(p, terms, h0, cache, (), res, cfg)
    nviol = 0
    for d in range(depth):
        nxt = []
        for hist in frontier:
            base = rebuild(p, terms, hist)
            for op in list(ops_for(base, terms, lean)):
                hs = rebuild(p, terms, hist + (op,))
                res['traces'] += 1
                if hs is None:
                    continue
                res['transitions'] += 1
                fp = fingerprint(hs)[0]
                if fp in seen:
                    continue
                seen.add(fp)
                res['states'] += 1
                res['nontrivial'] += 1 if len(hs) > 1 else 0
                if not check_state(p, terms, hs, cache, hist + (op,), res, cfg):
                    nviol += 1
                    if nviol > 20:
                        return
                    continue        # do not extend a violating state
                nxt.append(hist + (op,))
        frontier = nxt
    # token history + feed_eof == parse(text)
    for hist, o in list(cache.items()):
        if hist and hist[-1] == ('$EOF', True) and all(ok for _, ok in hist):
            text = ''.join(terms[t] for t, _ in hist[:-1])
            pr = larkio.parse(p, text)
            res['evals'] += 1
            got = obs.canon(pr[1], pos=True, meta=True) if pr[0] == 'ok' else repr(pr[1])[:100]
            if got != o.get('result'):
                res['viol'].append({'kind': 'feed-vs-parse', 'cause': 'feed-vs-parse', 'case': dict(cfg, tokens=[t for t, _ in hist[:-1]], text=text),
                                    'expected': got, 'observed': o.get('result')})
    if len(res['samples']) < 1 and frontier:
        res['samples'].append({'grammar': gtext, 'options': oname, 'depth': depth, 'states': len(seen),
                               'example_history': [list(o) for o in frontier[len(frontier) // 2]]})


# --------------------------------------------------------------------------------------------------- part B: text attached

TEXTS = {'sep-inl': ['a,a,a', 'a,a'], 'inl-leftrec': ['a,a,a', 'a,a', 'a,,a'], 'rightrec': ['a,a,a', 'a'], 'star': ['abab', 'ba'], 'nullable-tail': ['abb', 'a'],
         'plus-inl': ['abae', 'aae', 'abb'], 'multiline': ['a\nb a\n  b', 'ab\n\n ba b'], 'merged-inl': ['[a,a,a]', '[a,a](a,a)', '(a,a,a)[a]']}


def lexpos(ip):
    a = ip.lexer_thread.state.line_ctr.char_pos
    b = ip.parser_state.lexer.state.line_ctr.char_pos
    return (a, b)


def part_b(gi, lexer, res, only=None):
    name, gtext, terms = GRAMMARS[gi]
    if name not in TEXTS:
        return
    p = Lark(gtext, parser='lalr', lexer=lexer)
    for text in TEXTS[name]:
        toks_all = None
        for k in range(0, len(text) + 1):           # number of tokens fed (by hand, through the lexer) before forking
            for fork in ('copy', 'copy.copy', 'imm-mut'):
                for action in ('resume', 'lexall+eof', 'none'):
                    case = {'part': 'B', 'grammar_name': name, 'grammar': gtext, 'lexer': lexer, 'text': text, 'tokens_before_fork': k,
                            'fork': fork, 'fork_action': action, 'item': ['B', gi, lexer]}
                    if only and {x: only[x] for x in ('text', 'tokens_before_fork', 'fork', 'fork_action')} != {x: case[x] for x in ('text', 'tokens_before_fork', 'fork', 'fork_action')}:
                        continue
                    ip = p.parse_interactive(text)
                    gen = ip.lexer_thread.lex(ip.parser_state)
                    try:
                        for _ in range(k):
                            ip.feed_token(next(gen))
                    except (StopIteration, UnexpectedInput):
                        continue
                    before = (lexpos(ip), tuple(ip.parser_state.state_stack), obs.canon(list(ip.parser_state.value_stack), pos=True))
                    f = ip.copy() if fork == 'copy' else (_copy.copy(ip) if fork == 'copy.copy' else ip.as_immutable().as_mutable())
                    res['transitions'] += 1
                    res['states'] += 1
                    fres = None
                    try:
                        if action == 'resume':
                            fres = ('ok', obs.canon(f.resume_parse(), pos=True))
                        elif action == 'lexall+eof':
                            t_ = f.exhaust_lexer()
                            fres = ('ok', obs.canon(f.feed_eof(t_[-1] if t_ else None), pos=True))
                    except UnexpectedInput as e:
                        fres = ('exc', type(e).__name__)
                    res['transitions'] += 1
                    res['traces'] += 1
                    after = (lexpos(ip), tuple(ip.parser_state.state_stack), obs.canon(list(ip.parser_state.value_stack), pos=True))
                    if after != before:
                        res['viol'].append({'kind': 'fork-operation-moved-the-original', 'cause': 'fork-shares-lexer-thread' if after[0] != before[0] else 'fork-shares-stack',
                                            'case': case, 'expected': {'lexer_positions,stacks': before}, 'observed': {'lexer_positions,stacks': after}})
                        continue
                    # the original continues exactly as a plain parse of the text would
                    try:
                        ores = ('ok', obs.canon(ip.resume_parse(), pos=True))
                    except UnexpectedInput as e:
                        ores = ('exc', type(e).__name__)
                    pr = larkio.parse(p, text)
                    want = ('ok', obs.canon(pr[1], pos=True)) if pr[0] == 'ok' else ('exc', type(pr[1]).__name__)
                    res['nontrivial'] += 1
                    if ores != want:
                        res['viol'].append({'kind': 'resume-differs-from-parse', 'cause': 'resume', 'case': case, 'expected': want, 'observed': ores})
                    if fres is not None and fres != want and not (fres[0] == 'exc' and want[0] == 'exc'):
                        res['viol'].append({'kind': 'fork-result-differs-from-parse', 'cause': 'fork-resume', 'case': case, 'expected': want, 'observed': fres})


def _exc_obs(e):
    """Error class, token type and -- unless it is the fabricated $END, whose position is borrowed from whatever token the
    driver saw last -- the token position."""
    t = getattr(e, 'token', None)
    typ = getattr(t, 'type', None)
    return ('exc', type(e).__name__, typ, getattr(t, 'start_pos', None) if typ != '$END' else None)


def _double(t):
    return t.update(value=t.value + t.value)


def part_c(gi, lexer, res, only=None, cb=False):
    """resume_parse() from an error state: for every text of TEXTS and every position, a token the parser cannot take
    there is inserted; parse() raises UnexpectedToken carrying an interactive parser; resuming it must give exactly what a
    fresh interactive parser gives when fed the tokens before the error and then the tokens after the offending one."""
    name, gtext, terms = GRAMMARS[gi]
    if name not in TEXTS:
        return
    # cb: every terminal has a lexer callback that changes the *length* of the token value (the lexer position after an
    # error is a source offset, whatever the callback made of the value)
    kw = {'lexer_callbacks': {n: _double for n in terms}} if cb else {}
    p = Lark(gtext, parser='lalr', lexer=lexer, **kw)
    pbytes = Lark(gtext, parser='lalr', lexer=lexer, use_bytes=True, **kw)
    for text in TEXTS[name]:
        # parse(on_error=...) over an unlexable character: the handler lets lark skip it; str and bytes
        for pos in range(len(text) + 1):
            t2 = text[:pos] + '@' + text[pos:]
            if only and only['text'] != t2:
                continue
            whole = larkio.parse(p, text)
            if whole[0] != 'ok':
                continue
            for rep, parser_, arg in (('str', p, t2), ('bytes', pbytes, t2.encode('ascii'))):
                seen = []

                def once(e):
                    seen.append(type(e).__name__)
                    return len(seen) == 1
                r = util.timed(lambda: parser_.parse(arg, on_error=once), 10)
                res['transitions'] += 1
                res['nontrivial'] += 1
                got = ('ok', obs.canon(r[1])) if r[0] == 'ok' else (r[0], type(r[1]).__name__ if r[0] == 'exc' else None)
                want = ('ok', obs.canon(whole[1]))
                if got != want:
                    res['viol'].append({'kind': 'on_error-skip-differs-from-parse', 'cause': 'on-error', 'expected': want, 'observed': got,
                                        'case': {'part': 'C', 'grammar_name': name, 'grammar': gtext, 'lexer': lexer, 'text': t2, 'representation': rep,
                                                 'callbacks': cb, 'item': ['C', gi, lexer, cb]}})
        for pos in range(len(text) + 1):
            for bad in sorted(set(terms.values())):
                t2 = text[:pos] + bad + text[pos:]
                if only and only['text'] != t2:
                    continue
                try:
                    p.parse(t2)
                    continue
                except UnexpectedToken as e:
                    err = e
                except UnexpectedInput:
                    continue
                try:
                    res['transitions'] += 1
                    res['states'] += 1
                    res['traces'] += 1
                    ip = err.interactive_parser
                    case = {'part': 'C', 'grammar_name': name, 'grammar': gtext, 'lexer': lexer, 'text': t2, 'callbacks': cb, 'item': ['C', gi, lexer, cb]}
                    # reference: fresh interactive parser, tokens of the text without the offending one
                    try:
                        toks = list(p.lex(t2)) if lexer == 'basic' else None
                    except UnexpectedInput:
                        toks = None
                    if toks is None:
                        # contextual lexer: take the tokens from the basic-lexer twin (the grammars have no colliding terminals)
                        toks = list(Lark(gtext, parser='lalr', lexer='basic', **kw).lex(t2))
                    k = next((i for i, t in enumerate(toks) if t.start_pos == err.token.start_pos and t.type == err.token.type), None)
                    if k is None:
                        continue
                    ref = p.parse_interactive()
                    try:
                        for t in toks[:k] + toks[k + 1:]:
                            ref.feed_token(t)
                        want = ('ok', obs.canon(ref.feed_eof(toks[-1] if k != len(toks) - 1 else (toks[-2] if len(toks) > 1 else None)), pos=True))
                    except UnexpectedInput as e2:
                        want = _exc_obs(e2)
                    try:
                        got = ('ok', obs.canon(ip.resume_parse(), pos=True))
                    except UnexpectedInput as e2:
                        got = _exc_obs(e2)
                    res['nontrivial'] += 1
                    if got != want:
                        res['viol'].append({'kind': 'resume-from-error-state', 'cause': 'resume-error', 'case': case, 'expected': want, 'observed': got})
                        continue
                    # several repairs tried from ONE immutable snapshot of the error state: each child (snapshot.feed_token(r))
                    # resumed in turn must equal a fresh parser fed  tokens-before + r + tokens-after
                    try:
                        p.parse(t2)
                    except UnexpectedToken as e3:
                        snap = e3.interactive_parser.as_immutable()
                    for r in sorted(t for t in snap.accepts() if t in terms):
                        rt = Token(r, terms[r], start_pos=err.token.start_pos, line=1, column=err.token.start_pos + 1,
                                   end_line=1, end_column=err.token.start_pos + 2, end_pos=err.token.start_pos + 1)
                        ref = p.parse_interactive()
                        try:
                            for t in toks[:k] + [rt] + toks[k + 1:]:
                                ref.feed_token(t)
                            want = ('ok', obs.canon(ref.feed_eof(toks[-1]), pos=True))
                        except UnexpectedInput as e2:
                            want = _exc_obs(e2)
                        try:
                            child = snap.feed_token(rt)
                            got = ('ok', obs.canon(child.resume_parse(), pos=True))
                        except UnexpectedInput as e2:
                            got = _exc_obs(e2)
                        res['transitions'] += 2
                        res['nontrivial'] += 1
                        if got != want:
                            res['viol'].append({'kind': 'repair-from-immutable-snapshot', 'cause': 'snapshot-repair', 'case': dict(case, repair=r),
                                                'expected': want, 'observed': got})
                            break

                except UnexpectedInput:
                    raise
                except Exception as ex:     # anything but a parse error out of copy / resume / feed on an error state
                    res['viol'].append({'kind': 'exception-from-error-state', 'cause': 'resume-error', 'expected': 'a result or an UnexpectedInput',
                                        'observed': '%s: %s' % (type(ex).__name__, str(ex)[:150]),
                                        'case': {'part': 'C', 'grammar_name': name, 'grammar': gtext, 'lexer': lexer, 'text': t2, 'callbacks': cb, 'item': ['C', gi, lexer, cb]}})

def plan(tier, seed):
    depth = 5 if tier == 'quick' else 6
    items = []
    for gi, g in enumerate(GRAMMARS):
        for oi in range(len(OPTS)):
            if g[0].startswith('merged-la') and g[0] != 'merged-la' and oi:
                continue
            d = depth - (1 if len(g[2]) >= 4 else 0) - (1 if len(g[2]) >= 6 else 0) - (1 if len(g[2]) >= 8 else 0)
            items.append(('A', gi, oi, d))
        for lexer in ('basic', 'contextual'):
            items.append(('B', gi, lexer))
            items.append(('C', gi, lexer))
            if g[0] in TEXTS:
                items.append(('C', gi, lexer, True))
        for oi in (1, 3):
            items.append(('A2', gi, oi, 8 if tier == 'quick' else 10))
    return items


def bounds(tier, seed):
    return {'grammars': [g[0] for g in GRAMMARS], 'options': [o[0] for o in OPTS], 'max_handles': 3,
            'depth': '5 operations (4 for 4-terminal, 3 for 6-terminal grammars)' if tier == 'quick' else '6 (5, 4)',
            'lean_mode': 'accepted feeds + copy + feed_eof only, <= 2 handles, depth 8 (quick) / 10 (thorough), options pos and tr', 'part_C': 'resume_parse() from the error state of every text with one unacceptable token inserted at every position', 'part_B': 'every text of TEXTS x tokens fed before the fork x 3 fork kinds x {resume_parse, exhaust_lexer+feed_eof, nothing} x 2 lexers'}


def work(item):
    res = new_res()
    if item[0] == 'A':
        explore(item[1], item[2], item[3], res)
    elif item[0] == 'A2':
        explore(item[1], item[2], item[3], res, lean=True)
    elif item[0] == 'C':
        part_c(item[1], item[2], res, cb=bool(item[3]) if len(item) > 3 else False)
    else:
        part_b(item[1], item[2], res)
    res['counters'] = dict(res['counters'])
    return res


def replay(case):
    res = new_res()
    if case.get('part') == 'C':
        part_c(case['item'][1], case['item'][2], res, only=case, cb=bool(case['item'][3]) if len(case['item']) > 3 else False)
    elif case.get('part') == 'B':
        part_b(case['item'][1], case['item'][2], res, only=case)
    else:
        explore(*case['item'], res, only=case if 'history' in case else None, lean=case.get('lean', False))
    return res['viol']
