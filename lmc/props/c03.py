"""C03 -- the returned tree is the documented shaping of a derivation; engines agree (DESIGN.md section 4, C03)."""
from lark.exceptions import GrammarError, ParseError

from .. import families, gram, refsem, larkio, util, obs
from ..famrun import FamRun
from .c04 import norm_lark, norm_ref

ID = 'C03'
LEVEL = 'exploration'
RULE = ('every grammar of the SHAPE family (EBNF operators x helper spelled a/_a/?a/!a/template, aliases, kept/filtered/'
        'anonymous tokens) x keep_all_tokens x maybe_placeholders x 6 engine/lexer pairs (+ earley and cyk with ambiguity=explicit on inputs with one derivation) x every input up to the bound; the '
        'returned tree must be in {shape(d) | d reference derivation} (a singleton = engine agreement on the unique tree). '
        'Non-trivial = accepted input of length >= 1 whose tree was compared; distinct (grammar, options, engine, input) by '
        'construction')
ASSUMPTIONS = ['reference derivations + shaping function written from docs/tree_construction.md (refsem.shape)',
               'engines that refuse a grammar (LALR conflict, CYK empty rules) or reject through a documented limitation are counted as unsupported, not judged',
               'terminals of the family are distinct single characters, so tokenisation is unique for every lexer']
DEADLINE = {'quick': 900, 'thorough': 4 * 3600}

ENGINES = (('earley', 'basic'), ('earley', 'dynamic'), ('earley', 'dynamic_complete'),
           ('lalr', 'basic'), ('lalr', 'contextual'), ('cyk', 'basic'),
           # ambiguity='explicit' selects other tree-builder classes (ChildFilter instead of ChildFilterLALR*); judged on the
           # inputs with exactly one derivation, where the answer must be that derivation's tree (the rest is C04's)
           ('earley', 'basic', 'explicit'), ('cyk', 'basic', 'explicit'))


from ..gram import Rule, Term, Grammar     # noqa: E402

_X, _Y_, _K, _A = ('tok', 'X'), ('tok', '_Y'), ('lit', 'k'), ('ref', 'a')


class TMENU:
    """Hand-written template grammars (nested templates, literal / filtered / rule arguments, ! and _ templates, two
    parameters, recursion).  The reference instantiates them with our own substitution (gram.instantiate_templates)."""
    G = [
        # nested templates, literal argument, ! on the inner template
        [Rule('start', '', None, (((('tmpl', 'a', (_K,)),), None),)),
         Rule('a', '', None, (((('tmpl', 'b', (('ref', 'x'),)), ('ref', 'x')), None),), ('x',)),
         Rule('b', '!', None, (((('ref', 'y'),), None),), ('y',))],
        # the same with the ! template used second
        [Rule('start', '', None, (((('tmpl', 'a', (_K,)),), None),)),
         Rule('a', '', None, (((('ref', 'x'), ('tmpl', 'b', (('ref', 'x'),))), None),), ('x',)),
         Rule('b', '!', None, (((('ref', 'y'),), None),), ('y',))],
        # two parameters: separated list, separator literal / filtered terminal / kept terminal
        [Rule('start', '', None, (((('tmpl', 'sep', (_X, _K)), ('opt', ('tmpl', 'sep', (_A, _Y_)))), None),)),
         Rule('sep', '', None, (((('ref', 'p'), ('star', ('group', ((('ref', 's'), ('ref', 'p')),)))), None),), ('p', 's')),
         Rule('a', '', None, (((_X, _X), None),))],
        # inlined template and ?template
        [Rule('start', '', None, (((('tmpl', '_w', (_X,)), ('tmpl', 'q', (_A,))), None),)),
         Rule('_w', '', None, (((_K, ('ref', 'p'), _K), None), ((('ref', 'p'),), None)), ('p',)),
         Rule('q', '?', None, (((('ref', 'p'),), None), ((('ref', 'p'), _K, ('ref', 'p')), None)), ('p',)),
         Rule('a', '', None, (((_X,), None), ((_Y_, _X), 'ali'))),],
        # a template instantiated with itself as argument, ! outer
        [Rule('start', '', None, (((('tmpl', 'w', (('tmpl', 'w', (_X,)),)),), None),)),
         Rule('w', '!', None, (((_K, ('ref', 'p'), ('opt', _Y_)), None),), ('p',))],
        # the same argument object under a keep-all rule and a plain rule (no nesting)
        [Rule('start', '', None, (((('tmpl', 'b', (_K,)), ('tmpl', 'c', (_K,))), None),)),
         Rule('b', '!', None, (((('ref', 'y'), _X), None),), ('y',)),
         Rule('c', '', None, (((('ref', 'y'), _X), None),), ('y',))],
    ]

    def __len__(self):
        return len(self.G)

    def grammar(self, idx):
        return Grammar(self.G[idx], families.SHAPE_TERMS)


def box(name):
    if name == 'tmenu':
        return dict(fam=TMENU(), alpha='xyk', chunk=1)
    if name == 's1':
        return dict(fam=families.SHAPE(1), alpha='xyzw', chunk=8)
    if name == 's2':
        return dict(fam=families.SHAPE(2), alpha='xyzw', chunk=24)
    if name == 'lists':     # list-like helper rules (empty / recursive / EBNF, inlined or not): child-list reuse, empty reductions
        return dict(fam=families.LISTS(), alpha='xy', chunk=24)
    if name == 'x1':        # the anonymous literal is "x": same terminal as the named X, filtered per occurrence
        return dict(fam=families.SHAPE(1, zlit='x'), alpha='xyw', chunk=8)
    if name == 'x2':
        return dict(fam=families.SHAPE(2, zlit='x'), alpha='xyw', chunk=24)
    raise KeyError(name)


TIERS = {'quick': [('s1', 1, 3), ('s2', 64, 3), ('x1', 1, 3), ('x2', 64, 3), ('lists', 4, 4), ('tmenu', 1, 5)],
         'thorough': [('s1', 1, 4), ('s2', 1, 3), ('x1', 1, 4), ('x2', 2, 3), ('lists', 1, 5), ('tmenu', 1, 6)]}


def helper_cache_collision(g, same, keep_all):
    """Cause predicate of the known finding 'ebnf-helper-cache-ignores-filter' (evaluated on the grammar only):
    two repetition items (* or +) whose bodies are the same symbols once an anonymous literal is identified with the
    named terminal of the same text, but whose tokens are filtered differently (literal vs name, or ! rule vs not)."""
    if keep_all:
        return False
    seen = {}

    def canon(it):
        k = it[0]
        if k in ('tok', 'lit', 're'):
            t = same.get(it)
            return ('tok', t) if t else it
        if k in ('opt', 'star', 'plus'):
            return (k, canon(it[1]))
        if k == 'rep':
            return (k, canon(it[1]), it[2], it[3])
        if k in ('maybe', 'group'):
            return (k, tuple(tuple(canon(x) for x in s2) for s2 in it[1]))
        return it
    for r in g.rules.values():
        for seq, _ in r.alts:
            for it in gram.items_of(seq):
                if it[0] in ('star', 'plus'):
                    body = canon(it[1])
                    sig = tuple(refsem.tok_kept(x, r, False) for x in gram.items_of((it[1],)) if x[0] in ('tok', 'lit', 're'))
                    if seen.setdefault(body, sig) != sig:
                        return True
    return False


def check(g, gi, boxname, b, inputs, res, only=None):
    gtext = g.text()
    gref = gram.instantiate_templates(g)
    named = set(g.terms)
    samekeys = {('lit', t.pats[0][1]): t.name for t in g.terms.values() if len(t.pats) == 1 and t.pats[0][0] == 'str'}
    same = {('lit', t.pats[0][1]): t.name for t in g.terms.values() if len(t.pats) == 1 and t.pats[0][0] == 'str'}
    derivs = {}
    for w in inputs:
        try:
            derivs[w] = refsem.derivations(gref, refsem.Edges.chars(gref, w, 'exact'))
        except refsem.TooAmbiguous:
            derivs[w] = None
    for keep_all in (False, True):
        for ph in (False, True):
            if only and (only['keep_all_tokens'], only['maybe_placeholders']) != (keep_all, ph):
                continue
            want = {w: (None if D is None else {norm_ref(refsem.shape(d, gref, w, keep_all, ph), same) for d in D})
                    for w, D in derivs.items()}
            may_fail = None
            for parser, lexer, *amb in ENGINES:
                if only and (only['parser'], only['lexer'], only.get('ambiguity')) != (parser, lexer, amb[0] if amb else None):
                    continue
                opts = dict(parser=parser, lexer=lexer, keep_all_tokens=keep_all, maybe_placeholders=ph)
                if amb:
                    opts['ambiguity'] = amb[0]
                r = larkio.build(gtext, timeout=6 if parser == 'cyk' else 10, **opts)
                res['evals'] += 1
                cfg = {'box': boxname, 'gidx': gi, 'grammar': gtext, 'parser': parser, 'lexer': lexer,
                       'keep_all_tokens': keep_all, 'maybe_placeholders': ph}
                if amb:
                    cfg['ambiguity'] = amb[0]
                if r[0] != 'ok':
                    if parser == 'cyk':
                        res['counters']['unsupported: cyk refuses grammar / construction timeout'] += 1
                        continue
                    if r[0] == 'exc' and isinstance(r[1], GrammarError):
                        if parser == 'lalr' and 'Rules defined twice' not in str(r[1]):
                            res['counters']['unsupported: lalr conflict'] += 1
                            continue
                        if may_fail is None:
                            may_fail = refsem.construction_may_fail(gref, ph)
                        if may_fail:
                            res['counters']['construction: documented GrammarError (colliding optionals)'] += 1
                            continue
                    res['viol'].append({'kind': 'construction-' + larkio.outcome(r), 'cause': 'construction', 'case': cfg,
                                        'expected': 'constructed', 'observed': repr(r[1])[:300]})
                    continue
                p = r[1]
                for w in inputs:
                    W = want[w]
                    if W is None:
                        res['counters']['skipped: more than 256 derivations'] += 1
                        continue
                    if amb and len(derivs[w]) != 1:
                        continue
                    case = dict(cfg, input=w)
                    pr = larkio.parse(p, w)
                    res['evals'] += 1
                    if pr[0] == 'hang':
                        res['viol'].append({'kind': 'hang', 'cause': 'hang', 'case': case, 'expected': 'terminates', 'observed': 'watchdog'})
                        continue
                    if pr[0] == 'exc':
                        if W and parser == 'earley':
                            res['viol'].append({'kind': 'rejected-sentence', 'cause': 'language', 'case': case,
                                                'expected': sorted(W, key=repr)[:2], 'observed': repr(pr[1])[:200]})
                        elif W:
                            res['counters']['unsupported: %s rejects a sentence (shift preference / engine limitation; judged by C02)' % parser] += 1
                        elif not (obs.is_unexpected_input(pr[1]) or (parser == 'cyk' and isinstance(pr[1], ParseError))):
                            res['viol'].append({'kind': 'wrong-error', 'cause': 'error-class', 'case': case,
                                                'expected': 'UnexpectedInput', 'observed': repr(pr[1])[:200]})
                        continue
                    got = norm_lark(obs.canon(pr[1]), named)
                    if amb and "'_ambig'" in repr(got):
                        # one reference derivation, several lark derivations (EBNF operators splitting the same tokens): C04's
                        res['counters']['explicit engines: answer is an _ambig node (judged by C04)'] += 1
                        continue
                    if w:
                        res['nontrivial'] += 1
                    if got not in W:
                        cause = 'ebnf-helper-cache-ignores-filter' if helper_cache_collision(gref, samekeys, keep_all) else 'shape'
                        res['viol'].append({'kind': 'tree-not-a-shaped-derivation' if W else 'accepted-non-sentence',
                                            'cause': cause, 'case': case,
                                            'expected': sorted(W, key=repr)[:3], 'observed': got})
                    elif len(res['samples']) < 2 and len(w) >= 2 and parser != 'earley':
                        res['samples'].append({'grammar': gtext, 'options': {'keep_all_tokens': keep_all, 'maybe_placeholders': ph},
                                               'engine': parser + '/' + lexer, 'input': w, 'tree': got, 'reference_trees': len(W)})


_run = FamRun(box, TIERS, check, chunk=16)
plan, bounds, work, replay = _run.plan, _run.bounds, _run.work, _run.replay
