"""C09 -- repetition and optional operators match exactly the stated counts (DESIGN.md section 4, C09)."""
from lark import Tree
from lark.exceptions import UnexpectedInput, GrammarError

from .. import larkio, util, obs
from ..famrun import new_res

ID = 'C09'
LEVEL = 'exploration'
RULE = ('every pair 0 <= n <= m in the stated boxes x item kind (terminal, rule, group, template argument, terminal-internal '
        'string / regexp alternation / group) x parser (lalr, earley) x every repetition count k in 0..m+2 (lalr; earley: the '
        'counts around the bounds): accept iff n <= k <= m, exactly k consecutive children in order, no helper node (label '
        'starting with "__"), terminal value = the whole run; plus pairs of occurrences in one grammar (shared helper-rule cache) '
        'and ? * + with k = 0..6. Non-trivial = (pair, kind, parser, k) with m >= 2; distinct by construction')
ASSUMPTIONS = ['arithmetic oracle: n <= k <= m', 'bounds limited to the boxes in coverage.bounds (m <= 64 quick; m <= 200 lalr / 120 earley and the axes up to 400 thorough)']
DEADLINE = {'quick': 900, 'thorough': 3 * 3600}

KINDS = ('term', 'rule', 'group', 'group-alt', 'tmpl', 'keep-filtered', 'in-str', 'in-str-prefix', 'in-re-alt', 'in-group-alt')


def grammar_for(kind, n, m):
    rep = '~%d' % n if n == m else '~%d..%d' % (n, m)
    if kind == 'term':
        return 'start: X%s\nX: "x"\n' % rep, {}
    if kind == 'rule':
        return 'start: a%s\na: "x"\n' % rep, {}
    if kind == 'group':
        return 'start: ("x" "y")%s\n' % rep, {'keep_all_tokens': True}
    if kind == 'group-alt':
        return 'start: (X | Z)%s\nX: "x"\nZ: "z"\n' % rep, {}
    if kind == 'tmpl':
        return 'start: rep{X}\nrep{p}: p%s\nX: "x"\n' % rep, {}
    if kind == 'keep-filtered':     # an underscore-named terminal inside a keep-all rule: every occurrence is a child
        return '!start: Z _X%s Z\n_X: "x"\nZ: "z"\n' % rep, {}
    if kind == 'in-str':
        return 'start: T\nT: "x"%s\n' % rep, {}
    if kind == 'in-str-prefix':
        return 'start: T\nT: "y" "x"%s\n' % rep, {}
    if kind == 'in-re-alt':
        return 'start: T\nT: /x|z/%s\n' % rep, {}
    if kind == 'in-group-alt':
        return 'start: T\nT: ("x" | "z")%s\n' % rep, {}
    raise KeyError(kind)


def text_for(kind, k):
    if kind == 'group':
        return 'xy' * k
    if kind == 'in-str-prefix':
        return 'y' + 'x' * k
    if kind in ('in-re-alt', 'in-group-alt', 'group-alt'):
        return ('xz' * k)[:k] if k % 2 else ('zx' * k)[:k]
    if kind == 'keep-filtered':
        return 'z' + 'x' * k + 'z'
    return 'x' * k


def expected_tree_ok(kind, k, t):
    """Does the accepted result show exactly k consecutive occurrences and no helper nodes?"""
    c = obs.canon(t)
    if '__' in repr(c):
        return 'helper node visible'
    ch = c[2]
    if kind == 'term':
        return None if ch == tuple(('tok', 'X', 'x') for _ in range(k)) else 'children'
    if kind == 'rule':
        return None if ch == tuple(('tree', 'a', ()) for _ in range(k)) else 'children'
    if kind == 'group':
        return None if tuple(x[2] for x in ch) == tuple('xy' * k) else 'children'
    if kind == 'group-alt':
        return None if tuple(x[2] for x in ch) == tuple(text_for(kind, k)) else 'children'
    if kind == 'keep-filtered':
        return None if ch == (('tok', 'Z', 'z'),) + tuple(('tok', '_X', 'x') for _ in range(k)) + (('tok', 'Z', 'z'),) else 'children'
    if kind == 'tmpl':
        return None if ch == (('tree', 'rep', tuple(('tok', 'X', 'x') for _ in range(k))),) else 'children'
    want = text_for(kind, k)
    return None if len(ch) == 1 and ch[0][0] == 'tok' and ch[0][2] == want else 'token value'


def counts(n, m, full):
    if full:
        return list(range(0, m + 3))
    return sorted({k for k in (0, n - 1, n, n + 1, (n + m) // 2, m - 1, m, m + 1) if k >= 0})


def check_pair(kind, parser, n, m, full, res, only_k=None):
    if kind == 'in-str' and n == 0 or kind in ('in-re-alt', 'in-group-alt') and n == 0:
        return      # the terminal could match the empty string: outside the property ("cannot match the empty string")
    gtext, opts = grammar_for(kind, n, m)
    case0 = {'kind_of_item': kind, 'parser': parser, 'n': n, 'm': m, 'grammar': gtext}
    r = larkio.build(gtext, parser=parser, timeout=30, **opts)
    res['evals'] += 1
    if r[0] == 'hang':
        res['counters']['construction exceeded 30 CPU-seconds (time is not part of C09; not judged)'] += 1
        return
    if r[0] != 'ok':
        res['viol'].append({'kind': 'construction-' + larkio.outcome(r), 'cause': 'construction', 'case': case0,
                            'expected': 'constructed', 'observed': repr(r[1])[:300]})
        return
    p = r[1]
    for k in counts(n, m, full):
        if only_k is not None and k != only_k:
            continue
        w = text_for(kind, k)
        pr = larkio.parse(p, w, timeout=30)
        res['evals'] += 1
        if m >= 2:
            res['nontrivial'] += 1
        want = n <= k <= m
        o = larkio.outcome(pr)
        if o == 'hang':
            res['counters']['parse exceeded 30 CPU-seconds (not judged)'] += 1
            continue
        case = dict(case0, k=k)
        if o != ('accept' if want else 'reject'):
            res['viol'].append({'kind': 'count-' + o, 'cause': 'count', 'case': case,
                                'expected': 'accept' if want else 'reject', 'observed': o if pr[0] != 'exc' else repr(pr[1])[:150]})
        elif want:
            err = expected_tree_ok(kind, k, pr[1])
            if err:
                res['viol'].append({'kind': 'tree-' + err.replace(' ', '-'), 'cause': 'children', 'case': case,
                                    'expected': '%d consecutive occurrences, no helper nodes' % k, 'observed': repr(obs.canon(pr[1]))[:300]})
            elif len(res['samples']) < 2 and k >= 50 and kind in ('rule', 'group'):
                res['samples'].append({'grammar': gtext, 'parser': parser, 'k': k, 'accepted': True, 'children': len(pr[1].children)})


PAIRS2 = [(2, 3), (0, 2), (49, 51), (50, 50), (13, 50), (52, 52), (53, 53), (12, 60), (0, 50), (51, 99)]


def check_two(parser, a, b, res, only=None):
    (n1, m1), (n2, m2) = a, b
    r1 = '~%d' % n1 if n1 == m1 else '~%d..%d' % (n1, m1)
    r2 = '~%d' % n2 if n2 == m2 else '~%d..%d' % (n2, m2)
    for gi, gtext in enumerate(('start: X%s Y X%s\nX: "x"\nY: "y"\n' % (r1, r2),
                                'start: u Y v\nu: X%s\nv: X%s\nX: "x"\nY: "y"\n' % (r1, r2))):
        case0 = {'two': [list(a), list(b)], 'parser': parser, 'grammar': gtext, 'variant': gi}
        r = larkio.build(gtext, parser=parser, timeout=30)
        res['evals'] += 1
        if r[0] != 'ok':
            res['viol'].append({'kind': 'construction-' + larkio.outcome(r), 'cause': 'construction', 'case': case0,
                                'expected': 'constructed', 'observed': repr(r[1])[:300]})
            continue
        for k1 in counts(n1, m1, False):
            for k2 in counts(n2, m2, False):
                if only and (only['k1'], only['k2']) != (k1, k2):
                    continue
                pr = larkio.parse(r[1], 'x' * k1 + 'y' + 'x' * k2, timeout=30)
                res['evals'] += 1
                res['nontrivial'] += 1
                want = n1 <= k1 <= m1 and n2 <= k2 <= m2
                o = larkio.outcome(pr)
                if o != ('accept' if want else 'reject'):
                    res['viol'].append({'kind': 'count-' + o, 'cause': 'count-two-occurrences', 'case': dict(case0, k1=k1, k2=k2),
                                        'expected': 'accept' if want else 'reject', 'observed': o})
                elif want:
                    c = obs.canon(pr[1])
                    toks = [x for x in _flat(c)]
                    if '__' in repr(c) or toks != ['x'] * k1 + ['y'] + ['x'] * k2:
                        res['viol'].append({'kind': 'tree-children', 'cause': 'children', 'case': dict(case0, k1=k1, k2=k2),
                                            'expected': '%d x, y, %d x; no helper nodes' % (k1, k2), 'observed': repr(c)[:300]})


def _flat(c):
    if c[0] == 'tok':
        yield c[2]
    elif c[0] == 'tree':
        for x in c[2]:
            yield from _flat(x)


def check_ops(parser, res):
    for op, lo, hi in (('?', 0, 1), ('*', 0, 99), ('+', 1, 99)):
        for kind, g, label in (('term', 'start: X%s\nX: "x"\n', None), ('rule', 'start: a%s\na: "x"\n', None),
                               ('group', 'start: ("x" "y")%s\n', None), ('in-term', 'start: T\nT: "y" "x"%s\n', None),
                               ('keep-filtered', '!start: Z _X%s Z\n_X: "x"\nZ: "z"\n', None)):
            gtext = g % op
            opts = {'keep_all_tokens': True} if kind == 'group' else {}
            r = larkio.build(gtext, parser=parser, **opts)
            res['evals'] += 1
            if r[0] != 'ok':
                res['viol'].append({'kind': 'construction', 'cause': 'construction', 'case': {'ops': op, 'item': kind, 'parser': parser, 'grammar': gtext},
                                    'expected': 'constructed', 'observed': repr(r[1])[:200]})
                continue
            for k in range(0, 7):
                w = {'group': 'xy' * k, 'in-term': 'y' + 'x' * k, 'keep-filtered': 'z' + 'x' * k + 'z'}.get(kind, 'x' * k)
                pr = larkio.parse(r[1], w)
                res['evals'] += 1
                res['nontrivial'] += 1
                want = lo <= k <= hi
                o = larkio.outcome(pr)
                case = {'ops': op, 'item': kind, 'parser': parser, 'grammar': gtext, 'k': k}
                if o != ('accept' if want else 'reject'):
                    res['viol'].append({'kind': 'count-' + o, 'cause': 'count-op', 'case': case, 'expected': 'accept' if want else 'reject', 'observed': o})
                elif want:
                    c = obs.canon(pr[1])
                    n_ch = len(c[2])
                    exp = {'term': k, 'rule': k, 'group': 2 * k, 'in-term': 1, 'keep-filtered': k + 2}[kind]
                    if '__' in repr(c) or n_ch != exp:
                        res['viol'].append({'kind': 'tree-children', 'cause': 'children', 'case': case, 'expected': '%d children' % exp, 'observed': repr(c)[:200]})


def pairs_for(tier, kind, parser):
    """-> list of (n, m, full_k_range)"""
    out = []
    if tier == 'quick':
        M = 64
        for m in range(M + 1):
            for n in range(m + 1):
                if parser == 'earley' and kind != 'term' and m % 3:
                    continue
                if parser == 'earley' and 14 < m < 50 and (m - n) > 6 and kind != 'term' or (kind == 'group-alt' and 9 < m < 50):
                    continue        # naive expansion: m-n+1 alternatives of up to 49 symbols (slow under Earley)
                out.append((n, m, parser == 'lalr'))
        for n, m in ((13, 70), (12, 97), (25, 120), (52, 52), (53, 53), (97, 97), (0, 100), (64, 128), (100, 127)):
            out.append((n, m, parser == 'lalr'))
    else:
        M = 200 if parser == 'lalr' else 120
        for m in range(M + 1):
            for n in range(m + 1):
                if parser == 'earley' and kind != 'term' and m % 3:
                    continue
                if parser == 'earley' and 14 < m < 50 and (m - n) > 10 and kind != 'term' or (kind == 'group-alt' and 11 < m < 50):
                    continue
                out.append((n, m, parser == 'lalr' and m <= 130))
        for v in range(201, 401, 1 if parser == 'lalr' else 7):
            out.append((v, v, False))
            out.append((0, v, False))
        for n in (1, 49, 50, 51, 97):
            for d in range(0, 151, 1 if parser == 'lalr' else 5):
                if n + d > M:
                    out.append((n, n + d, False))
    return out


CHUNK = 60


def plan(tier, seed):
    items = []
    for parser in ('lalr', 'earley'):
        for kind in KINDS:
            n = len(pairs_for(tier, kind, parser))
            ch = CHUNK if parser == 'lalr' else 30
            for lo in range(0, n, ch):
                items.append(('pairs', tier, kind, parser, lo, min(n, lo + ch)))
        items.append(('ops', parser))
        for i, a in enumerate(PAIRS2):
            items.append(('two', parser, i))
    return items


def bounds(tier, seed):
    return {'pairs': 'all 0<=n<=m<=%s' % ('64 + 9 pairs up to 128' if tier == 'quick' else '200 (lalr) / 120 (earley), axes n=m and (0,m) up to 400, (n,n+d) d<=150'),
            'item_kinds': KINDS, 'parsers': ['lalr', 'earley'], 'counts': 'lalr: every k in 0..m+2; earley: k around the bounds',
            'two_occurrences': PAIRS2, 'operators': ['?', '*', '+'], 'earley_thinning': 'non-terminal item kinds every third m; naive-expansion region (14<m<50) limited to m-n<=6'}


def work(item):
    res = new_res()
    if item[0] == 'pairs':
        _, tier, kind, parser, lo, hi = item
        for n, m, full in pairs_for(tier, kind, parser)[lo:hi]:
            check_pair(kind, parser, n, m, full, res)
    elif item[0] == 'ops':
        check_ops(item[1], res)
    else:
        _, parser, i = item
        for b in PAIRS2:
            check_two(parser, PAIRS2[i], b, res)
    res['counters'] = dict(res['counters'])
    return res


def replay(case):
    res = new_res()
    if 'two' in case:
        check_two(case['parser'], tuple(case['two'][0]), tuple(case['two'][1]), res, only=case if 'k1' in case else None)
        return [v for v in res['viol'] if v['case'].get('variant') == case.get('variant')]
    if 'ops' in case:
        check_ops(case['parser'], res)
        return [v for v in res['viol'] if v['case'] == case]
    check_pair(case['kind_of_item'], case['parser'], case['n'], case['m'], True, res, only_k=case.get('k'))
    return res['viol']
