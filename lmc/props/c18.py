"""C18 -- the Indenter emits CPython's INDENT/DEDENT structure (DESIGN.md section 4, C18)."""
import io
import itertools
import tokenize

from lark import Lark, Token
from lark.indenter import Indenter, DedentError
from lark.exceptions import UnexpectedInput

from .. import util, obs
from ..famrun import new_res

ID = 'C18'
LEVEL = 'model_checking'
RULE = ('(1) streams: every text of <= 4 lines (thorough 5) where each line is one of 7 indentations x 8 bodies (a, (, ), (a, a), '
        'a(, blank, comment-only; lines 3.. draw from 4 bodies), with and without a final newline, bracket depth never negative, '
        'lexed through a concrete Indenter (tab_len 8 and 4) under two spellings of the newline terminal (plain, and python.lark\'s '
        'newline-or-comment token): the INDENT/DEDENT/NAME/paren sequence (or DedentError) must equal a reference indentation '
        'automaton (column stack + bracket depth) that is itself cross-validated against CPython tokenize on every text tokenize '
        'accepts; the real object\'s (indent stack, bracket depth) is read after every token and compared with the reference state. '
        '(2) histories: every sequence of <= 3 streams from a set of representative streams (complete, ending in DedentError, in a '
        'lexing error inside brackets, abandoned after j tokens) through ONE Indenter object: each stream\'s output must equal that of '
        'a fresh object. (3) an abandoned stream kept referenced and closed only after r tokens of the next stream (every pair of streams, abandon point 1..4, release point 0..5), followed by a third stream: no effect on the later streams. states = (indent stack, bracket depth) of the real object after a token; transitions = tokens processed')
ASSUMPTIONS = ['tabs counted as tab_len columns (coincides with CPython for tabs preceding spaces at column 0 when tab_len = 8)',
               'a whitespace-only LAST line without final newline is not judged (the statement and CPython disagree there; counted)',
               'comment-only lines under the plain spelling (comments %ignored separately) are judged against the token-level rule of the statement, not against CPython']
DEADLINE = {'quick': 900, 'thorough': 3 * 3600}

INDENTS = ['', ' ', '  ', '    ', '\t', '\t  ', ' \t']      # the last one: a blank *before* a tab (tab_len per tab != tab stops)
BODIES = ['a', '(', ')', '(a', 'a)', 'a(', '', '# c']
BODIES_TAIL = ['a', '(', ')', '']

G_PLAIN = ('start: (_NL | tok)*\ntok: NAME | LPAR | RPAR | _INDENT | _DEDENT\nNAME: "a"\nLPAR: "("\nRPAR: ")"\n'
           '_NL: /(\\r?\\n[\\t ]*)+/\nCOMMENT: /#[^\\n]*/\n%ignore COMMENT\n%ignore /[\\t ]+/\n%declare _INDENT _DEDENT\n')
G_PY = ('start: (_NL | tok)*\ntok: NAME | LPAR | RPAR | _INDENT | _DEDENT\nNAME: "a"\nLPAR: "("\nRPAR: ")"\n'
        '_NL: ( /\\r?\\n[\\t ]*/ | COMMENT )+\nCOMMENT: /#[^\\n]*/\n%ignore /[\\t ]+/\n%declare _INDENT _DEDENT\n')


def mk_indenter(tab):
    class I(Indenter):
        NL_type = '_NL'
        OPEN_PAREN_types = ['LPAR']
        CLOSE_PAREN_types = ['RPAR']
        INDENT_type = '_INDENT'
        DEDENT_type = '_DEDENT'
        tab_len = tab
    return I()


def width(indent, tab):
    return indent.count(' ') + indent.count('\t') * tab


def ref_lines(lines, tab, comments_are_lines):
    """Reference automaton on physical lines.  -> ('ok', events, states) | ('dedent-error', events).
    comments_are_lines=False: comment-only lines are invisible (CPython / python.lark spelling).
    comments_are_lines=True: a comment-only line still produces a newline token carrying its indentation (plain spelling:
    the comment is ignored separately), so the statement's token-level rule applies to it."""
    stack, depth, out = [0], 0, []
    first = True
    for ind, body in lines:
        code = body if not body.startswith('#') else ''
        blank = code == ''
        if depth == 0 and not first:
            judged = (not blank) or (comments_are_lines and body.startswith('#'))
            if judged:
                col = width(ind, tab)
                if col > stack[-1]:
                    stack.append(col)
                    out.append('INDENT')
                else:
                    while col < stack[-1]:
                        stack.pop()
                        out.append('DEDENT')
                    if col != stack[-1]:
                        return ('dedent-error', out)
        first = False
        for ch in code:
            if ch == 'a':
                out.append('NAME')
            elif ch == '(':
                out.append('LPAR')
                depth += 1
            elif ch == ')':
                out.append('RPAR')
                depth -= 1
    while len(stack) > 1:
        stack.pop()
        out.append('DEDENT')
    return ('ok', out)


def cpython(text):
    """CPython's own nesting for the text, or None where tokenize does not apply."""
    out = []
    try:
        for t in tokenize.generate_tokens(io.StringIO(text).readline):
            if t.type == tokenize.NAME:
                out.append('NAME')
            elif t.type == tokenize.OP:
                out.append('LPAR' if t.string == '(' else 'RPAR')
            elif t.type == tokenize.INDENT:
                out.append('INDENT')
            elif t.type == tokenize.DEDENT:
                out.append('DEDENT')
        return ('ok', out)
    except IndentationError as e:
        if 'unindent does not match' in str(e):
            return ('dedent-error', out)
        return None
    except (tokenize.TokenError, SyntaxError):
        return None


class FastLex:
    """Lark.lex() builds a new BasicLexer (2 ms) on every call; build it once through the same Lark._build_lexer and drive
    it exactly as Lark.lex does (lexer thread -> postlex.process).  Texts of <= 2 characters go through Lark.lex itself."""

    def __init__(self, p):
        self.p = p
        self.lexer = p._build_lexer()

    def lex(self, text):
        if len(text) <= 2:
            return self.p.lex(text)
        from lark.lexer import LexerThread
        return self.p.options.postlex.process(LexerThread.from_text(self.lexer, text).lex(None))


def lark_stream(p, text, ind=None):
    """-> ('ok', events, nl_inside_brackets, states) | ('dedent-error', events) | ('exc', name)"""
    out, states = [], []
    nl_in = 0
    depth = 0
    try:
        for t in p.lex(text):
            if t.type == '_NL':
                if depth > 0:
                    nl_in += 1
            elif t.type == '_INDENT':
                out.append('INDENT')
            elif t.type == '_DEDENT':
                out.append('DEDENT')
            else:
                out.append(t.type)
                depth += (t.type == 'LPAR') - (t.type == 'RPAR')
            if ind is not None:
                states.append((tuple(ind.indent_level), ind.paren_level))
        return ('ok', out, nl_in, states)
    except DedentError:
        return ('dedent-error', out)
    except Exception as e:
        return ('exc', type(e).__name__ + ': ' + str(e)[:60], out)


def _strip(r):
    """For a DedentError outcome the DEDENTs emitted while unwinding (before the error is noticed) are not compared."""
    if r[0] != 'dedent-error':
        return r
    ev = list(r[1])
    while ev and ev[-1] == 'DEDENT':
        ev.pop()
    return ('dedent-error', ev)


def texts(nlines):
    heads = [('', b) for b in BODIES]
    mid = [(i, b) for i in INDENTS for b in BODIES]
    tail = [(i, b) for i in INDENTS for b in BODIES_TAIL]
    for n in range(1, nlines + 1):
        pools = [heads] + [mid] * min(1, n - 1) + [tail] * max(0, n - 2)
        for lines in itertools.product(*pools):
            d = 0
            ok = True
            for _, b in lines:
                for ch in (b if not b.startswith('#') else ''):
                    d += (ch == '(') - (ch == ')')
                    if d < 0:
                        ok = False
            if ok:
                yield lines


def part1(nlines, lo, hi, res, only=None):
    parsers = {}
    for spell, g in (('plain', G_PLAIN), ('python', G_PY)):
        for tab in (8, 4):
            ind = mk_indenter(tab)
            parsers[spell, tab] = (FastLex(Lark(g, parser='lalr', lexer='basic', postlex=ind)), ind)
    for lines in itertools.islice(texts(nlines), lo, hi):
        for final_nl in (False, True):
            text = '\n'.join(i + b for i, b in lines) + ('\n' if final_nl else '')
            if only and only['text'] != text:
                continue
            last_ind, last_body = lines[-1]
            ws_only_last = (not final_nl) and last_body == '' and last_ind != '' and len(lines) > 1
            has_comment = any(b.startswith('#') for _, b in lines)
            space_tab = any(' \t' in i for i, _ in lines)     # CPython rounds a tab up to the next multiple of 8: not comparable
            py = cpython(text)
            for (spell, tab), (p, ind) in parsers.items():
                if only and (only['spelling'], only['tab_len']) != (spell, tab):
                    continue
                comments_are_lines = spell == 'plain'
                want = ref_lines(lines, tab, comments_are_lines)
                # cross-validation of the reference against CPython (harness check, not a finding)
                if (py is not None and tab == 8 and not space_tab) and (not comments_are_lines or not has_comment):
                    refpy = ref_lines(lines, 8, False)
                    if _strip(refpy) != _strip(py) and not ws_only_last:
                        res['errors'] = res.get('errors', []) + ['reference automaton disagrees with CPython tokenize on %r: %r vs %r' % (text, refpy, py)]
                    else:
                        res['counters']['reference cross-validated against CPython tokenize'] += 1
                got = lark_stream(p, text, ind)
                res['evals'] += 1
                res['transitions'] += len(got[1]) if len(got) > 1 and isinstance(got[1], list) else 0
                res['states'] += len(set(got[3])) if got[0] == 'ok' else 0
                res['traces'] += 1
                if len(lines) >= 2:
                    res['nontrivial'] += 1
                if ws_only_last:
                    res['counters']['whitespace-only last line without final newline: not judged'] += 1
                    continue
                case = {'part': 1, 'text': text, 'spelling': spell, 'tab_len': tab, 'nlines': nlines}
                ends_in_comment = (not final_nl) and last_body.startswith('#')
                cause = 'stream'
                if spell == 'python' and has_comment:
                    cause = 'newline-token-ends-in-comment'
                g_ = got[:2]
                if _strip(g_) != _strip(want[:2]):
                    res['viol'].append({'kind': 'indent-structure', 'cause': cause, 'case': case, 'expected': want, 'observed': got[:2]})
                elif got[0] == 'ok' and got[2]:
                    res['viol'].append({'kind': 'newline-inside-brackets', 'cause': cause, 'case': case, 'expected': 'no _NL token inside brackets', 'observed': got[2]})
                elif got[0] == 'ok' and (got[1].count('INDENT') != got[1].count('DEDENT') or (got[3] and got[3][-1][0] != (0,))):
                    res['viol'].append({'kind': 'unbalanced', 'cause': cause, 'case': case, 'expected': 'INDENT count == DEDENT count, stack back to [0]', 'observed': got[1]})
                elif len(res['samples']) < 2 and got[0] == 'ok' and got[1].count('INDENT') >= 2:
                    res['samples'].append({'text': text, 'spelling': spell, 'tab_len': tab, 'events': got[1], 'cpython_agrees': py == want if py else None})


# --------------------------------------------------------------------------------------------------- histories

STREAMS = ['a\n  a\n    a\na\n', 'a\n  a\n', 'a\n    a\n  a\n', '(a\n  a\n', 'a\n  (\n', 'a\n  (a\n!', 'a\n  a\n!', '(\n(\n', 'a\n\ta\n  a\n', '', 'a', 'a\n  a\n    a']


def run_stream(p, text, take):
    """take None: consume fully; take j: abandon the generator after j tokens."""
    out = []
    try:
        it = iter(p.lex(text))
        n = 0
        for t in it:
            out.append((t.type, str(t)))
            n += 1
            if take is not None and n >= take:
                break
        return ('ok', tuple(out))
    except DedentError:
        return ('dedent-error', tuple(out))
    except UnexpectedInput as e:
        return ('lex-error', tuple(out))
    except AssertionError:
        return ('assertion', tuple(out))


def part2(first, depth, res, only=None):
    ops = [(s, take) for s in range(len(STREAMS)) for take in (None, 2, 3)]
    fresh = {}
    for op in ops:
        fresh[op] = run_stream(Lark(G_PLAIN, parser='lalr', lexer='basic', postlex=mk_indenter(8)), STREAMS[op[0]], op[1])
    seqs = [tuple(tuple(o) for o in only['history'])] if only else \
        [s for d in range(1, depth + 1) for s in itertools.product(ops, repeat=d) if s[0] == first]
    for seq in seqs:
        p = Lark(G_PLAIN, parser='lalr', lexer='basic', postlex=mk_indenter(8))
        res['traces'] += 1
        for i, op in enumerate(seq):
            got = run_stream(p, STREAMS[op[0]], op[1])
            res['transitions'] += 1
            res['states'] += 1
            if i:
                res['nontrivial'] += 1
            if got != fresh[tuple(op)]:
                res['viol'].append({'kind': 'stream-history-dependence', 'cause': 'history', 'case': {'part': 2, 'history': [list(o) for o in seq[:i + 1]],
                                    'streams': [STREAMS[o[0]] for o in seq[:i + 1]], 'depth': depth}, 'expected': fresh[tuple(op)], 'observed': got})
                break


def part3(s1, res, only=None):
    """An abandoned stream that is still referenced, and released (closed) only while a later stream is being read: stream
    s1 is abandoned after j tokens and kept; stream s2 is read in full, the kept generator being closed after r tokens of it;
    then stream s3 is read.  s2 and s3 must come out exactly as from a fresh object."""
    fresh = {s: run_stream(Lark(G_PLAIN, parser='lalr', lexer='basic', postlex=mk_indenter(8)), STREAMS[s], None) for s in range(len(STREAMS))}
    for j in (1, 2, 3, 4):
        for s2 in range(len(STREAMS)):
            for r in range(0, 6):
                for s3 in (0, 3, 9):
                    if only and (only['abandon_after'], only['second'], only['release_after'], only['third']) != (j, s2, r, s3):
                        continue
                    p = Lark(G_PLAIN, parser='lalr', lexer='basic', postlex=mk_indenter(8))
                    held = iter(p.lex(STREAMS[s1]))
                    try:
                        for _ in range(j):
                            next(held)
                    except (StopIteration, DedentError, UnexpectedInput, AssertionError):
                        pass
                    out = []
                    try:
                        n = 0
                        it = iter(p.lex(STREAMS[s2]))
                        while True:
                            if n == r and held is not None:
                                held.close()
                                held = None
                            try:
                                t = next(it)
                            except StopIteration:
                                break
                            out.append((t.type, str(t)))
                            n += 1
                        got2 = ('ok', tuple(out))
                    except DedentError:
                        got2 = ('dedent-error', tuple(out))
                    except UnexpectedInput:
                        got2 = ('lex-error', tuple(out))
                    except AssertionError:
                        got2 = ('assertion', tuple(out))
                    if held is not None:
                        held.close()
                    got3 = run_stream(p, STREAMS[s3], None)
                    res['traces'] += 1
                    res['transitions'] += 3
                    res['states'] += 3
                    res['nontrivial'] += 1
                    case = {'part': 3, 'first': s1, 'abandon_after': j, 'second': s2, 'release_after': r, 'third': s3,
                            'streams': [STREAMS[s1], STREAMS[s2], STREAMS[s3]]}
                    if got2 != fresh[s2]:
                        res['viol'].append({'kind': 'stream-disturbed-by-release-of-abandoned-stream', 'cause': 'held-generator', 'case': case,
                                            'expected': fresh[s2], 'observed': got2})
                    elif got3 != fresh[s3]:
                        res['viol'].append({'kind': 'stream-history-dependence', 'cause': 'held-generator', 'case': case,
                                            'expected': fresh[s3], 'observed': got3})


def plan(tier, seed):
    nlines = 4 if tier == 'quick' else 5
    n = sum(1 for _ in texts(nlines))
    items = [('p1', nlines, lo, min(n, lo + 3000)) for lo in range(0, n, 3000)]
    depth = 3
    ops = [(s, take) for s in range(len(STREAMS)) for take in (None, 2, 3)]
    if tier == 'quick':
        ops = [o for o in ops if o[1] in (None, 2)]
    items += [('p2', op, depth) for op in ops]
    items += [('p3', s1) for s1 in range(len(STREAMS))]
    return items


def bounds(tier, seed):
    nlines = 4 if tier == 'quick' else 5
    return {'texts': sum(1 for _ in texts(nlines)), 'max_lines': nlines, 'indentations': INDENTS, 'bodies': BODIES, 'tail_bodies': BODIES_TAIL,
            'spellings': ['plain', 'python'], 'tab_len': [8, 4], 'final_newline': [False, True],
            'histories': {'streams': STREAMS, 'abandon_after': [None, 2, 3], 'depth': 3}}


def work(item):
    res = new_res()
    if item[0] == 'p1':
        part1(item[1], item[2], item[3], res)
    elif item[0] == 'p3':
        part3(item[1], res)
    else:
        part2(tuple(item[1]), item[2], res)
    res['counters'] = dict(res['counters'])
    return res


def replay(case):
    res = new_res()
    if case['part'] == 1:
        part1(case['nlines'], 0, None, res, only=case)
    elif case['part'] == 3:
        part3(case['first'], res, only=case)
    else:
        part2(None, case['depth'], res, only=case)
    return res['viol']
