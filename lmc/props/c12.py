"""C12 -- the grammar cache is only an optimisation, whatever the state of the cache file (DESIGN.md section 4, C12)."""
import base64
import itertools
import os
import shutil
import sys

import lark
import lark.lark as larklark
from lark import Lark

from .. import larkio, util, obs
from ..famrun import new_res

ID = 'C12'
LEVEL = 'fault_enumeration'
MEM_GIB = 1.5
RULE = ('fault enumeration on real cache files: for each (grammar, options) pair the valid file B is produced once; for every '
        'offset k in [0, |B|] the file is set to B[:k] (a torn non-atomic write is a prefix), for every offset and each bit mask '
        'the file is set to B with that bit flipped, and Lark(g, cache=path) is run under a CPU watchdog and an address-space '
        'limit: the constructor must return (no exception, hang or memory exhaustion caused by the content), the instance must be '
        'observation-equal to the uncached build on all inputs up to the bound, and afterwards the file must be valid (the next '
        'construction loads from it -- load_grammar is not called -- and is again equal). History search: every sequence of <= 3 '
        '(thorough 4) events build(g_i, o_j) / edit_import / shadow_import / bump_version / truncate on one shared cache path, '
        'same oracle after every build. Non-trivial = fault inside the pickled part of the file, or a build preceded by another '
        'event; distinct by construction')
ASSUMPTIONS = ['behavioural equality is observed through parse() on all inputs up to length 3 plus an interactive accepts() probe',
               'file bytes are not compared (LALR state numbering follows id()-ordered sets, two valid files differ)',
               'truncation = prefix of the valid file; corruption = single-bit flips (quick: masks 0x01 and 0x80, thorough: all 8)']
DEADLINE = {'quick': 1200, 'thorough': 4 * 3600}

G_IMP = 'start: x+ y?\ny: ["b"] "c"\n%import m.x\n'
G_IMP2 = 'start: x+ z?\n%import m.x\n%import n.z\n'          # two imported files (the second one is edited)
G_PKG = 'start: x+ k?\n%import m.x\n%import pk.k\n'           # pk.k comes through a FromPackageLoader (PackageResource key)
N_V = {0: 'z: "c"\n', 1: 'z: "c" "c"\n'}
PK_V = {0: 'k: "c"\n', 1: 'k: "b" "c"\n'}
G_PLAIN = 'start: (A | B)+ [C]\nA: "a"\nB: "b"\nC: "c"\n'
G_OTHER = 'start: (A | B)* C\nA: "a"\nB: "b"\nC: "c"\n'
M_V = {0: 'x: "a"\n', 1: 'x: "b"\n', 2: 'x: "a" "a"\n'}
M_SHADOW = 'x: "b" "a"\n'
PK_ALT = 'k: "c" "c"\n'      # the same module name under another search path of the package loader
GRAMMARS = {'imp2': G_IMP2, 'pkg': G_PKG, 'pkg-alt': G_PKG, 'imp': G_IMP, 'plain': G_PLAIN, 'other': G_OTHER, 'plain-cmt': G_PLAIN + '//', 'plain-cmt-kw': G_PLAIN + '//keep_all_tokensTrue'}
OPTS = {'o0': {}, 'keep': {'keep_all_tokens': True}, 'noph': {'maybe_placeholders': False}, 'basic': {'lexer': 'basic'},
        'start-y': {'start': 'y'}, 'prio-none': {'priority': None}}
INPUTS = list(util.strings('abc', 3))
# a cache file of more than 8 KiB (10 KB): one terminal per string over {a,b,c} of length 1..2 (12 terminals), every one of
# them exercised by the inputs (so that damage to any pattern is observable)
BIG_WORDS = [w for w in util.strings('abc', 2) if w]
GRAMMARS['big'] = 'start: (%s)+\n' % ' | '.join('T%03d' % i for i in range(len(BIG_WORDS))) + ''.join('T%03d: "%s"\n' % (i, w) for i, w in enumerate(BIG_WORDS))
INPUTS_BIG = INPUTS


def _edit_c(t):
    """edit_terminals callback: the terminal C matches "ca" instead of "c"."""
    if t.name == 'C':
        t.pattern.value = 'ca'


# a callback option: it is not part of the cache key, and such parsers are documented (since 0896624) to bypass the cache
OPTS['edit'] = {'edit_terminals': _edit_c}


class Env:
    """Scratch directories: d1 (earlier on the import path, normally empty), d2 (holds m.lark), cache file path."""

    def __init__(self, tag):
        root = os.path.join(os.environ.get('LMC_SCRATCH', '/dev/shm'), 'c12_%s_%d' % (tag, os.getpid()))
        shutil.rmtree(root, ignore_errors=True)
        # The cache key covers the option values, i.e. also the import paths and the cache path: they are kept relative
        # (the process works inside the scratch directory) so that a file produced in one environment is a valid cache
        # file in another one (other worker, replay).
        self.root = root
        self.cwd = os.getcwd()
        os.makedirs(os.path.join(root, 'd1'))
        os.makedirs(os.path.join(root, 'd2'))
        os.chdir(root)
        self.d1, self.d2 = 'd1', 'd2'
        self.cache = 'the.cache'
        self.set_import(0)
        self.set_n(0)
        # a throw-away package next to the scratch directories, imported through FromPackageLoader
        self.pkg = 'lmcpkg_%s' % os.path.basename(root).replace('-', '_').replace('.', '_')
        os.makedirs(os.path.join(root, self.pkg))
        with open(os.path.join(root, self.pkg, '__init__.py'), 'w') as f:
            f.write('')
        self.set_pkg(0)
        os.makedirs(os.path.join(root, self.pkg, 'alt'))
        with open(os.path.join(root, self.pkg, 'alt', 'pk.lark'), 'w') as f:
            f.write(PK_ALT)
        sys.path.insert(0, root)

    def set_import(self, v):
        with open(os.path.join(self.d2, 'm.lark'), 'w') as f:
            f.write(M_V[v])

    def set_n(self, v):
        with open(os.path.join(self.d2, 'n.lark'), 'w') as f:
            f.write(N_V[v])

    def set_pkg(self, v):
        with open(os.path.join(self.root, self.pkg, 'pk.lark'), 'w') as f:
            f.write(PK_V[v])

    def shadow(self, on):
        p = os.path.join(self.d1, 'm.lark')
        if on:
            with open(p, 'w') as f:
                f.write(M_SHADOW)
        elif os.path.exists(p):
            os.remove(p)

    def close(self):
        if self.root in sys.path:
            sys.path.remove(self.root)
        sys.modules.pop(self.pkg, None)
        os.chdir(self.cwd)
        shutil.rmtree(self.root, ignore_errors=True)


def construct(env, g, o, cached):
    paths = [env.d1, env.d2]
    if g in ('pkg', 'pkg-alt'):
        from lark.load_grammar import FromPackageLoader
        paths = paths + [FromPackageLoader(env.pkg, ('',) if g == 'pkg' else ('alt',))]
    opts = dict(parser='lalr', import_paths=paths, **OPTS[o])
    # keep_all_tokens must be the *first* keyword for the key-concatenation corner: pass options in a fixed order
    if 'keep_all_tokens' in opts:
        opts = dict(keep_all_tokens=opts.pop('keep_all_tokens'), **opts)
    if cached:
        opts['cache'] = env.cache
    return util.timed(lambda: Lark(GRAMMARS[g], **opts), 10)


def behaviour(p, start=None, inputs=None):
    out = []
    for w in (inputs or INPUTS):
        r = util.timed(lambda: p.parse(w), 5)
        out.append(obs.canon(r[1], pos=True) if r[0] == 'ok' else (r[0], type(r[1]).__name__, getattr(r[1], 'pos_in_stream', None)))
    r = util.timed(lambda: tuple(sorted(p.parse_interactive('').accepts())), 5)
    out.append(r[1] if r[0] == 'ok' else (r[0],))
    return tuple(out)


class LoadCounter:
    def __enter__(self):
        self.n = 0
        self.orig = larklark.load_grammar

        def counting(*a, **kw):
            self.n += 1
            return self.orig(*a, **kw)
        larklark.load_grammar = counting
        return self

    def __exit__(self, *a):
        larklark.load_grammar = self.orig


def judge(env, g, o, res, case, section, want=None):
    """One cached construction against the uncached build + validity of the file afterwards."""
    inputs = INPUTS_BIG if g == 'big' else INPUTS
    if want is None:
        ref = construct(env, g, o, cached=False)
        res['evals'] += 1
        if ref[0] != 'ok':
            res['counters']['uncached build refuses the (grammar, options) pair: not judged'] += 1
            return True
        want = behaviour(ref[1], inputs=inputs)
    with LoadCounter() as lc0:
        r = construct(env, g, o, cached=True)
    res['evals'] += 1
    if lc0.n == 0 and r[0] == 'ok' and case.get('part') == 'fault':
        res['counters']['faulty file was unpickled and served (%s)' % case['section']] += 1

    def bad(kind, exp, got):
        res['viol'].append({'kind': kind, 'cause': '%s:%s' % (kind, section), 'case': case, 'expected': exp, 'observed': got})
    if r[0] == 'hang':
        bad('constructor-hangs-or-exhausts-memory', 'constructor returns', 'CPU watchdog (10 s) or MemoryError under a %.1f GiB limit' % MEM_GIB)
        return False
    if r[0] == 'exc':
        bad('constructor-raises', 'constructor returns', repr(r[1])[:300])
        return False
    got = behaviour(r[1], inputs=inputs)
    if got != want:
        i = next(i for i, (a, b) in enumerate(zip(got, want)) if a != b)
        bad('serves-wrong-parser', {'input': inputs[i] if i < len(inputs) else 'accepts()', 'observation': want[i]},
            {'input': inputs[i] if i < len(inputs) else 'accepts()', 'observation': got[i]})
        return False
    with LoadCounter() as lc:
        r2 = construct(env, g, o, cached=True)
    res['evals'] += 1
    if r2[0] != 'ok':
        bad('file-invalid-afterwards', 'second construction returns', repr(r2)[:200])
        return False
    if lc.n != 0 and 'edit_terminals' in OPTS[o]:
        res['counters']['edit_terminals: cache bypassed (file neither read nor written), equal to the uncached build'] += 1
    elif lc.n != 0:
        bad('file-not-replaced-by-a-valid-one', 'the next construction loads from the cache (load_grammar not called)', 'load_grammar called %d times' % lc.n)
        return False
    if behaviour(r2[1], inputs=inputs) != want:
        bad('serves-wrong-parser-afterwards', 'equal to the uncached build', 'differs')
        return False
    return True


# --------------------------------------------------------------------------------------------------- faults

FAULT_PAIRS = [('imp', 'o0'), ('plain', 'keep'), ('plain', 'basic'), ('imp', 'noph')]


def base_file(g, o):
    env = Env('base_%s_%s' % (g, o))
    try:
        r = construct(env, g, o, cached=True)
        assert r[0] == 'ok', r
        with open(env.cache, 'rb') as f:
            return f.read()
    finally:
        env.close()


def section_of(B, k):
    nl = B.index(b'\n')
    if k <= nl:
        return 'header'
    # the used-files pickle ends at the first STOP opcode after the header that is followed by a pickle PROTO marker
    j = B.find(b'.\x80', nl)
    return 'used-files' if j != -1 and k <= j else 'payload'


def run_faults(g, o, Bb64, kind, lo, hi, masks, res, only=None):
    B = base64.b64decode(Bb64)
    env = Env('f_%s_%s_%s_%d' % (g, o, kind, lo))
    try:
        ref = construct(env, g, o, cached=False)        # the environment is the same for every fault of this item
        res['evals'] += 1
        want = behaviour(ref[1], inputs=INPUTS_BIG if g == 'big' else INPUTS) if ref[0] == 'ok' else None
        for k in range(lo, hi):
            for mask in (masks if kind == 'flip' else [None]):
                if only and (only['offset'], only.get('mask')) != (k, mask):
                    continue
                if kind == 'trunc':
                    data = B[:k]
                else:
                    if k >= len(B):
                        continue
                    data = B[:k] + bytes([B[k] ^ mask]) + B[k + 1:]
                with open(env.cache, 'wb') as f:
                    f.write(data)
                sec = section_of(B, k)
                case = {'part': 'fault', 'grammar': g, 'options': o, 'fault': kind, 'offset': k, 'mask': mask, 'section': sec,
                        'file_len': len(B), 'base_file_b64': Bb64}
                if sec != 'header':
                    res['nontrivial'] += 1
                judge(env, g, o, res, case, '%s-%s' % (kind, sec), want=want)
    finally:
        env.close()
    if len(res['samples']) < 1:
        res['samples'].append({'grammar': GRAMMARS[g], 'options': OPTS[o], 'fault': kind, 'offsets': [lo, hi], 'file_len': len(B),
                               'masks': masks if kind == 'flip' else None})


# --------------------------------------------------------------------------------------------------- histories

def events(tier):
    ev = [('build', g, o) for g, o in (('imp', 'o0'), ('imp', 'keep'), ('imp', 'noph'), ('plain', 'o0'), ('plain', 'keep'), ('plain', 'noph'),
                                      ('plain', 'prio-none'), ('other', 'o0'), ('plain-cmt', 'keep'), ('plain-cmt-kw', 'o0'), ('imp', 'start-y'), ('plain', 'edit'))]
    ev += [('build', 'imp2', 'o0'), ('build', 'pkg', 'o0'), ('build', 'pkg-alt', 'o0'), ('edit-n', 1), ('edit-pkg', 1)]
    ev += [('edit', 1), ('edit', 2), ('edit', 0), ('shadow', True), ('version', '9.9.9'), ('pyversion', (2, 7)), ('truncate',), ('garbage',)]
    return ev


def run_history(seq, res, only=None):
    env = Env('h_%d' % (abs(hash(seq)) % 10 ** 9))
    saved_v = lark.__version__
    saved_vi = sys.version_info
    shadowed = False
    try:
        for i, ev in enumerate(seq):
            res['transitions'] += 1
            if ev[0] == 'build':
                case = {'part': 'history', 'history': [list(e) for e in seq[:i + 1]]}
                if i:
                    res['nontrivial'] += 1
                sec = 'history' if not shadowed else 'history-import-shadowed'
                if not judge(env, ev[1], ev[2], res, case, sec):
                    return
            elif ev[0] == 'edit':
                env.set_import(ev[1])
            elif ev[0] == 'edit-n':
                env.set_n(ev[1])
            elif ev[0] == 'edit-pkg':
                env.set_pkg(ev[1])
            elif ev[0] == 'shadow':
                env.shadow(True)
                shadowed = True
            elif ev[0] == 'version':
                lark.__version__ = ev[1]
            elif ev[0] == 'pyversion':
                class _VI(tuple):
                    major, minor = ev[1]
                sys.version_info = _VI(ev[1] + (0, 'final', 0))
            elif ev[0] == 'truncate':
                if os.path.exists(env.cache):
                    with open(env.cache, 'rb') as f:
                        d = f.read()
                    with open(env.cache, 'wb') as f:
                        f.write(d[:len(d) // 2])
            elif ev[0] == 'garbage':
                with open(env.cache, 'wb') as f:
                    f.write(b'not a cache file\n\x80\x04garbage')
    finally:
        lark.__version__ = saved_v
        sys.version_info = saved_vi
        env.close()


def plan(tier, seed):
    items = []
    masks = [0x01, 0x80] if tier == 'quick' else [1 << b for b in range(8)]
    pairs = FAULT_PAIRS[:2] if tier == 'quick' else FAULT_PAIRS
    for g, o in pairs:
        B = base_file(g, o)
        b64 = base64.b64encode(B).decode()
        for lo in range(0, len(B) + 1, 200):
            items.append(('trunc', g, o, b64, lo, min(len(B) + 1, lo + 200), None))
        for lo in range(0, len(B), 100):
            items.append(('flip', g, o, b64, lo, min(len(B), lo + 100), masks))
    # the large file (> 8 KiB payload): quick = every offset x the lowest bit; thorough = all bits and every truncation
    B = base_file('big', 'o0')
    b64 = base64.b64encode(B).decode()
    for lo in range(0, len(B), 150):
        items.append(('flip', 'big', 'o0', b64, lo, min(len(B), lo + 150), [0x01] if tier == 'quick' else masks))
    if tier != 'quick':
        for lo in range(0, len(B) + 1, 300):
            items.append(('trunc', 'big', 'o0', b64, lo, min(len(B) + 1, lo + 300), None))
    ev = events(tier)
    depth = 3 if tier == 'quick' else 4
    builds = [e for e in ev if e[0] == 'build']
    # every history ends in a build (only builds are judged); split by first event
    for first in ev:
        items.append(('hist', depth, first))
    return items


def histories(depth, first):
    ev = events(None)
    builds = [e for e in ev if e[0] == 'build']
    for d in range(1, depth + 1):
        for mid in itertools.product(ev, repeat=max(0, d - 2)):
            for last in builds:
                seq = ((first,) + mid + (last,)) if d >= 2 else ((first,) if first[0] == 'build' and last == first else None)
                if seq is None:
                    continue
                if not any(e[0] == 'build' for e in seq[:-1]) and d > 1 and first[0] not in ('truncate', 'garbage'):
                    pass
                yield seq


def bounds(tier, seed):
    return {'fault_pairs': FAULT_PAIRS[:2] if tier == 'quick' else FAULT_PAIRS,
            'large_file': 'grammar `big` (12 colliding terminals, cache file of 10 KB): every offset x %s' % ('mask 0x01' if tier == 'quick' else 'all 8 bits, and every truncation offset'), 'truncation': 'every offset 0..len(file)',
            'bit_flips': 'every offset x masks %s' % ([0x01, 0x80] if tier == 'quick' else 'all 8 bits'),
            'history_events': [list(e) for e in events(tier)], 'history_depth': 3 if tier == 'quick' else 4,
            'inputs': 'all strings over abc up to length 3 + accepts() of the initial state', 'memory_limit_gib': MEM_GIB}


def work(item):
    res = new_res()
    if item[0] in ('trunc', 'flip'):
        kind, g, o, b64, lo, hi, masks = item
        run_faults(g, o, b64, kind, lo, hi, masks, res)
    else:
        _, depth, first = item
        seen = set()
        for seq in histories(depth, first):
            if seq in seen:
                continue
            seen.add(seq)
            res['states'] += 1
            res['traces'] += 1
            run_history(seq, res)
    res['counters'] = dict(res['counters'])
    return res


def replay(case):
    res = new_res()
    if case['part'] == 'fault':
        run_faults(case['grammar'], case['options'], case['base_file_b64'], case['fault'], case['offset'], case['offset'] + 1,
                   [case['mask']] if case['mask'] is not None else None, res, only=case)
    else:
        run_history(tuple(tuple(tuple(x) if isinstance(x, list) else x for x in e) for e in case['history']), res)
    return res['viol']
