"""C17 -- imports, overrides, extensions and templates mean what textual inlining means (DESIGN.md section 4, C17)."""
import itertools
import os
import re
import shutil

from lark import Lark, Tree
from lark.visitors import CollapseAmbiguities
from lark.exceptions import GrammarError

from .. import larkio, util, obs
from ..famrun import new_res

ID = 'C17'
LEVEL = 'exploration'
RULE = ('for each base grammar: every dependency-closed way of moving a subset of its definitions into a module file x import '
        'form (one %import per name, %import m (a, b), renaming with ->, nested path d.m, relative path) x variant (plain; a local '
        'definition with the same name as a non-imported dependency of the module; %override / %extend of an explicitly imported '
        'rule or terminal; template defined in the module and instantiated with a terminal, a rule or a literal) x parser (lalr; '
        'earley with ambiguity=explicit compared as sets) x every input up to the bound: the importing grammar must accept exactly '
        'what the hand-inlined grammar accepts and build the same tree, transitively imported names carrying the documented '
        'module__name prefix; plus 5 grammars whose templates carry priorities / modifiers, each compared with the same grammar with the template instances written out as plain rules (6 engine configurations). Non-trivial = accepted non-empty input on a split that moves at least one definition the main '
        'grammar does not import explicitly; distinct by construction')
ASSUMPTIONS = ['the hand-inlined grammar is produced by our own textual renamer (fresh legal names for module-internal definitions)',
               'aliases inside imported rules may carry the module prefix or not (undocumented; accepted either way, consistently per grammar)',
               'lark on plain (import-free) grammars is judged by C01-C03']
DEADLINE = {'quick': 900, 'thorough': 3 * 3600}

TOK = re.compile(r'"(?:\\.|[^"\\])*"i?|/(?:\\.|[^/\\])+/[a-z]*|->\s*\w+|[A-Za-z_]\w*|\s+|.')

# name (with modifiers / priority / template parameters), body
BASES = {
    'expr': ([('start', 'expr'), ('?expr', 'atom | expr "+" atom'), ('?atom', 'NUM | "(" expr ")" | NAME -> var'),
              ('NUM', 'DIGIT+'), ('NAME', 'LETTER+'), ('DIGIT', '"1" | "2"'), ('LETTER', '"a" | "b"')], '1a+()', 4),
    'list': ([('start', '_list'), ('_list', 'item | _list _SEP item'), ('item', 'WORD | "[" _list "]" -> nested'),
              ('_SEP', '","'), ('WORD', '"w" | "v"')], 'wv,[]', 4),
    'tmpl': ([('start', 'seq{item} ";" seq{A}'), ('seq{x}', 'x ("," x)*'), ('item', 'A | B -> bee'), ('A', '"a"'), ('B', '"b"')], 'ab,;', 5),
    'mods': ([('start', 'keep low* hi?'), ('!keep', '"k" X'), ('low.1', 'X | X Y'), ('hi.2', 'X Y'), ('X', '"x"'), ('Y', '"y"')], 'kxy', 5),
    'terms': ([('start', '(INT | DIGIT "!" | WORD)+'), ('INT', 'DIGIT DIGIT'), ('WORD', 'LETTER INT?'), ('DIGIT', '"1" | "2"'), ('LETTER', '"a"')], '12a!q', 4),
    'tmpl2': ([('start', 'list ";" list?'), ('list', 'seq{item}'), ('seq{x}', 'x ("," x)*'), ('item', 'A | B -> bee'), ('A', '"a"'), ('B', '"b"')], 'ab,;', 4),
    'tmpl3': ([('start', 'list'), ('list', '_sep{item, _COMMA} | "[" _sep{A, "b"} "]"'), ('_sep{x, s}', 'x (s x)*'), ('item', 'A'), ('A', '"a"'), ('_COMMA', '","')], 'ab,[]', 5),
    'tmpl4': ([('start', 'w+'), ('w', 'wrap{A} | wrap{w}'), ('wrap{x}', '_LP x _RP'), ('_LP', '"("'), ('_RP', '")"'), ('A', '"a"')], 'a()', 6),
    'tmpl6': ([('start', 'seq{x} ";" x?'), ('seq{x}', 'x ("," x)*'), ('x', 'A | B'), ('A', '"a"'), ('B', '"b"')], 'ab,;', 5),   # a rule named like the template parameter
    'chain': ([('start', 'a+'), ('a', 'b "!" | b'), ('b', 'c c?'), ('c', 'T | "(" a ")"'), ('T', 'U "t"?'), ('U', '"u"')], 'ut!()', 4),
}


def bare(header):
    return re.match(r'[?!]*(_?[A-Za-z]\w*)', header).group(1)


def idents(body):
    return [m for m in TOK.findall(body) if re.fullmatch(r'[A-Za-z_]\w*', m)]


def rename(body, mapping):
    out = []
    for m in TOK.findall(body):
        if re.fullmatch(r'[A-Za-z_]\w*', m) and m in mapping:
            out.append(mapping[m])
        else:
            out.append(m)
    return ''.join(out)


def fresh(name):
    if name.startswith('_'):
        return '_zz' + name[1:] if name[1:].islower() or not name[1:].isupper() else '_ZZ' + name[1:]
    return 'ZZ' + name if name.isupper() or (name[0].isupper()) else 'zz' + name


def mangled(name, prefix):
    return '_%s__%s' % (prefix, name[1:]) if name.startswith('_') else '%s__%s' % (prefix, name)


def splits(defs):
    names = [bare(h) for h, _ in defs]
    params = {bare(h): re.findall(r'\{([^}]*)\}', h) for h, _ in defs}
    deps = {}
    for h, b in defs:
        n = bare(h)
        local = set(p.strip() for ps in params[n] for p in ps.split(','))
        deps[n] = {i for i in idents(b) if i in names and i not in local} - {n}
    movable = [n for n in names if n != 'start']
    for k in range(1, len(movable) + 1):
        for S in itertools.combinations(movable, k):
            S = set(S)
            if all(deps[n] <= S for n in S):
                yield S, deps


def header_with(header, newname):
    return re.sub(r'^([?!]*)(_?[A-Za-z]\w*)', lambda m: m.group(1) + newname, header, 1)


def build_case(base, S, deps, form, variant):
    """-> dict(files={relpath: text}, main=text, main_is_file, inlined=text, labelmap={inlined label: expected label}, import_paths)"""
    defs, alpha, L = BASES[base]
    names = [bare(h) for h, _ in defs]
    kept = [(h, b) for h, b in defs if bare(h) not in S]
    moved = [(h, b) for h, b in defs if bare(h) in S]
    for h, b in moved:      # a module that defines a rule named like one of its own template parameters is invalid by itself
        pm_ = re.search(r'\{([^}]*)\}', h)
        if pm_ and any(q.strip() in S for q in pm_.group(1).split(',')):
            return None
    used_by_main = set()
    for h, b in kept:
        used_by_main |= {i for i in idents(b) if i in S}
    if not used_by_main:
        return None
    explicit = sorted(used_by_main)
    prefix = {'nested': 'd__m'}.get(form, 'm')
    modpath = {'nested': 'd/m.lark'}.get(form, 'm.lark')
    dotted = {'nested': 'd.m', 'relative': '.m'}.get(form, 'm')
    ren = {}
    if form == 'rename':
        ren = {explicit[0]: ('R' + explicit[0] if explicit[0].lstrip('_')[0].isupper() else 'r' + explicit[0]).replace('r_', '_r').replace('R_', '_R')}
    # --- the importing grammar
    if form == 'group' and len(explicit) > 1:
        imports = ['%%import %s (%s)' % (dotted, ', '.join(explicit))]
    else:
        imports = ['%%import %s.%s%s' % (dotted, n, ' -> %s' % ren[n] if n in ren else '') for n in explicit]
    main_defs = [(h, rename(b, ren)) for h, b in kept]
    extra_main, extra_inl = [], []
    inl_moved = list(moved)
    if variant == 'local-clash':
        internal = sorted(S - set(explicit))
        if not internal:
            return None
        c = internal[0]
        if '{' in dict((bare(h), h) for h, _ in defs)[c]:
            return None
        body = '"q"'
        extra_main = [(c, body)]
        main_defs = [(h, b + (' | %s' % c if bare(h) == 'start' else '')) for h, b in main_defs]
    elif variant in ('override', 'extend'):
        t = explicit[0]
        th = dict((bare(h), h) for h, _ in defs)[t]
        if '{' in th:
            return None
        newbody = '"q"' if t.lstrip('_')[0].isupper() else '"q" "q"'
        tn = ren.get(t, t)
        if variant == 'override':
            extra_main = [('%override ' + header_with(th, tn).lstrip('?!'), newbody)] if False else [('%override ' + tn, newbody)]
            inl_moved = [(h, newbody if bare(h) == t else b) for h, b in inl_moved]
        else:
            extra_main = [('%extend ' + tn, newbody)]
            inl_moved = [(h, b + ' | ' + newbody if bare(h) == t else b) for h, b in inl_moved]
    main = '\n'.join(imports + ['%s: %s' % (h, b) for h, b in main_defs + extra_main]) + '\n'
    module = '\n'.join('%s: %s' % (h, b) for h, b in moved) + '\n'
    # --- the hand-inlined grammar: module-internal names get fresh legal names
    internal = S - set(explicit)
    imap = {n: fresh(n) for n in internal}
    imap.update(ren)
    inl = []
    for h, b in kept:
        b2 = rename(b, ren)
        if variant == 'local-clash' and bare(h) == 'start':
            b2 += ' | %s' % extra_main[0][0]
        inl.append((h, b2))
    for h, b in inl_moved:
        n = bare(h)
        h2, b2 = header_with(h, imap.get(n, n)), rename(b, imap)
        pm = re.search(r'\{([^}]*)\}', h2)
        if pm:      # a careful hand-inliner renames the bound parameter names of a moved template apart from everything else
            pmap = {q.strip(): 'zzp' + q.strip() for q in pm.group(1).split(',')}
            h2 = h2[:pm.start()] + '{' + ', '.join(pmap[q.strip()] for q in pm.group(1).split(',')) + '}' + h2[pm.end():]
            b2 = rename(b, dict(imap, **pmap))
        inl.append((h2, b2))
    if variant == 'local-clash':
        inl.append(extra_main[0])
    inlined = '\n'.join('%s: %s' % (h, b) for h, b in inl) + '\n'
    labelmap = {fresh(n): mangled(n, prefix) for n in internal}
    # aliases inside moved rules may or may not be namespaced
    aliases = set()
    for h, b in moved:
        aliases |= {m.split('>')[1].strip() for m in TOK.findall(b) if m.startswith('->')}
    return dict(files={modpath: module}, main=main, inlined=inlined, labelmap=labelmap, aliases=sorted(aliases), prefix=prefix,
                relative=(form == 'relative'), alpha=alpha, L=L, moves_internal=bool(internal))


def relabel(t, labelmap, aliases, prefix, alias_prefixed):
    if t is None:
        return None
    if t[0] == 'tok':
        return ('tok', labelmap.get(t[1], t[1]), t[2])
    if t[0] != 'tree':
        return t
    lab = labelmap.get(t[1], t[1])
    if alias_prefixed and t[1] in aliases:
        lab = mangled(t[1], prefix)
    return ('tree', lab, tuple(relabel(c, labelmap, aliases, prefix, alias_prefixed) for c in t[2]))


def has_alias_prefixed(t, aliases, prefix):
    if t is None or t[0] != 'tree':
        return False
    if any(t[1] == mangled(a, prefix) for a in aliases):
        return True
    return any(has_alias_prefixed(c, aliases, prefix) for c in t[2])


def observe(p, w, explicit_amb):
    r = larkio.parse(p, w)
    if r[0] != 'ok':
        return (larkio.outcome(r),)
    if explicit_amb:
        c = util.timed(lambda: CollapseAmbiguities().transform(r[1]), 10)
        if c[0] != 'ok':
            return ('too-ambiguous',)
        return ('ok', frozenset(obs.canon(x) for x in c[1]))
    return ('ok', frozenset([obs.canon(r[1])]))


def check_case(base, S, form, variant, res, only=None):
    defs, alpha, L = BASES[base]
    allsplits = {frozenset(s): d for s, d in splits(defs)}
    case = build_case(base, set(S), allsplits[frozenset(S)], form, variant)
    if case is None:
        return
    root = os.path.join(os.environ.get('LMC_SCRATCH', '/dev/shm'), 'c17_%d' % os.getpid())
    shutil.rmtree(root, ignore_errors=True)
    os.makedirs(os.path.join(root, 'd'))
    try:
        for rel, text in case['files'].items():
            with open(os.path.join(root, rel), 'w') as f:
                f.write(text)
        mainfile = os.path.join(root, 'main.lark')
        with open(mainfile, 'w') as f:
            f.write(case['main'])
        cfg = {'base': base, 'moved': sorted(S), 'form': form, 'variant': variant, 'main': case['main'], 'module': list(case['files'].values())[0], 'inlined': case['inlined']}
        kall = {'keep_all_tokens': True} if variant == 'keep-all' else {}
        for parser, opts in (('lalr', dict(kall)), ('earley', dict(kall, ambiguity='explicit'))):
            if only and only['parser'] != parser:
                continue
            if case['relative']:
                ri = util.timed(lambda: Lark.open(mainfile, parser=parser, **opts), 20)
            else:
                ri = larkio.build(case['main'], parser=parser, import_paths=[root], **opts)
            rh = larkio.build(case['inlined'], parser=parser, **opts)
            res['evals'] += 2
            if rh[0] != 'ok':
                if ri[0] == 'ok' and parser == 'earley':
                    res['viol'].append({'kind': 'inlined-refused-but-import-built', 'cause': 'construction', 'case': dict(cfg, parser=parser),
                                        'expected': repr(rh[1])[:200], 'observed': 'built'})
                else:
                    res['counters']['both refused / lalr conflict: not judged'] += 1
                continue
            if ri[0] != 'ok':
                res['viol'].append({'kind': 'import-grammar-refused', 'cause': 'construction:' + variant, 'case': dict(cfg, parser=parser),
                                    'expected': 'constructed (the hand-inlined grammar is)', 'observed': repr(ri[1])[:300]})
                continue
            alias_prefixed = None
            for w in util.strings(alpha, L):
                if only and only.get('input') != w:
                    continue
                oi = observe(ri[1], w, parser == 'earley')
                oh = observe(rh[1], w, parser == 'earley')
                res['evals'] += 2
                if 'too-ambiguous' in (oi[0], oh[0]):
                    continue
                if w and oh[0] == 'ok' and case['moves_internal']:
                    res['nontrivial'] += 1
                if oh[0] == 'ok' and oi[0] == 'ok':
                    if alias_prefixed is None:
                        alias_prefixed = any(has_alias_prefixed(t, case['aliases'], case['prefix']) for t in oi[1])
                        if not alias_prefixed and any(_has_label(t, case['aliases']) for t in oi[1]):
                            alias_prefixed = False
                        elif not alias_prefixed:
                            alias_prefixed = None
                    exp = frozenset(relabel(t, case['labelmap'], case['aliases'], case['prefix'], bool(alias_prefixed)) for t in oh[1])
                    if exp != oi[1]:
                        res['viol'].append({'kind': 'tree-differs', 'cause': 'tree:' + variant, 'case': dict(cfg, parser=parser, input=w),
                                            'expected': sorted(exp, key=repr)[:2], 'observed': sorted(oi[1], key=repr)[:2]})
                    elif len(res['samples']) < 2 and len(w) >= 3 and case['moves_internal']:
                        res['samples'].append({'main': case['main'], 'module': cfg['module'], 'inlined': case['inlined'], 'parser': parser, 'input': w,
                                               'tree': sorted(oi[1], key=repr)[0]})
                elif oh[0] != oi[0]:
                    res['viol'].append({'kind': 'language-differs', 'cause': 'language:' + variant, 'case': dict(cfg, parser=parser, input=w),
                                        'expected': oh[0], 'observed': oi[0]})
    finally:
        shutil.rmtree(root, ignore_errors=True)


def _has_label(t, labels):
    if t is None or t[0] != 'tree':
        return False
    return t[1] in labels or any(_has_label(c, labels) for c in t[2])


# --------------------------------------------------------------------------------------------------- templates written out

# (name, grammar with templates, the same grammar with every template instance written out by hand, alphabet, max length).
# Every template is used with one argument list, so the written-out rule can keep the template's name, modifiers and priority.
TEMPLATE_PAIRS = [
    ('prio', 'start: plain | wrapped{WORD}\nwrapped{t}.2: t\nplain.1: WORD\nWORD: /[ab]+/\n',
             'start: plain | wrapped\nwrapped.2: WORD\nplain.1: WORD\nWORD: /[ab]+/\n', 'ab', 3),
    ('prio-neg-2params', 'start: pair{A, B} | other\npair{x, y}.-1: x y | x\nother: A B | A\nA: "a"\nB: "b"\n',
                         'start: pair | other\npair.-1: A B | A\nother: A B | A\nA: "a"\nB: "b"\n', 'ab', 3),
    ('prio-mods', 'start: w{A}+ k{B}?\n?w{x}.2: x | x "!" -> bang\n!k{x}.1: "(" x ")"\nA: "a"\nB: "b"\n',
                  'start: w+ k?\n?w.2: A | A "!" -> bang\n!k.1: "(" B ")"\nA: "a"\nB: "b"\n', 'ab!()', 5),
    ('prio-nested', 'start: a{b{X}} | c\na{t}.1: t\nb{t}.3: t Y?\nc.2: X Y?\nX: "x"\nY: "y"\n',
                    'start: a | c\na.1: b\nb.3: X Y?\nc.2: X Y?\nX: "x"\nY: "y"\n', 'xy', 3),
    ('prio-list', 'start: seq{item} | flat\nseq{x}.2: x ("," x)*\nflat.1: item ("," item)*\nitem: A\nA: "a"\n',
                  'start: seq | flat\nseq.2: item ("," item)*\nflat.1: item ("," item)*\nitem: A\nA: "a"\n', 'a,', 5),
]
TEMPLATE_ENGINES = (('earley', {'ambiguity': 'resolve'}), ('earley', {'ambiguity': 'resolve', 'priority': 'invert'}), ('earley', {'ambiguity': 'explicit'}),
                    ('earley', {'lexer': 'basic'}), ('lalr', {}), ('lalr', {'lexer': 'basic', 'keep_all_tokens': True}))


def check_template_pair(idx, res, only=None):
    name, tg, hg, alpha, L = TEMPLATE_PAIRS[idx]
    for ei, (parser, opts) in enumerate(TEMPLATE_ENGINES):
        if only and only['engine'] != ei:
            continue
        cfg = {'template_pair': name, 'pair_index': idx, 'engine': ei, 'parser': parser, 'options': opts, 'with_templates': tg, 'written_out': hg}
        rt = larkio.build(tg, parser=parser, **opts)
        rh = larkio.build(hg, parser=parser, **opts)
        res['evals'] += 2
        if rt[0] != 'ok' or rh[0] != 'ok':
            if larkio.outcome(rt) != larkio.outcome(rh):
                res['viol'].append({'kind': 'template-construction-differs', 'cause': 'template:' + name, 'case': cfg,
                                    'expected': repr(rh[1])[:200], 'observed': repr(rt[1])[:200]})
            continue
        for w in util.strings(alpha, L):
            if only and only.get('input') != w:
                continue
            a, b = larkio.parse(rt[1], w), larkio.parse(rh[1], w)
            res['evals'] += 2
            oa = ('ok', obs.canon(a[1])) if a[0] == 'ok' else (a[0], type(a[1]).__name__, getattr(a[1], 'pos_in_stream', None))
            ob = ('ok', obs.canon(b[1])) if b[0] == 'ok' else (b[0], type(b[1]).__name__, getattr(b[1], 'pos_in_stream', None))
            if b[0] == 'ok':
                res['nontrivial'] += 1
            if oa != ob:
                res['viol'].append({'kind': 'template-differs-from-written-out-rule', 'cause': 'template:' + name, 'case': dict(cfg, input=w),
                                    'expected': ob, 'observed': oa})


FORMS = ('single', 'group', 'rename', 'nested', 'relative')
VARIANTS = ('plain', 'local-clash', 'override', 'extend', 'keep-all')       # keep-all: plain split built with keep_all_tokens=True


def plan(tier, seed):
    items = []
    for base, (defs, alpha, L) in BASES.items():
        for S, _ in splits(defs):
            for form in FORMS:
                for variant in VARIANTS:
                    if tier == 'quick' and form in ('nested', 'relative') and variant != 'plain':
                        continue
                    items.append((base, sorted(S), form, variant))
    # group into work items
    return [tuple(items[i:i + 12]) for i in range(0, len(items), 12)] + [('template-pair', i) for i in range(len(TEMPLATE_PAIRS))]


def bounds(tier, seed):
    return {'bases': {b: {'definitions': [h for h, _ in v[0]], 'splits': sum(1 for _ in splits(v[0])), 'input_alphabet': v[1], 'max_input_len': v[2]} for b, v in BASES.items()},
            'template_pairs': [t[0] for t in TEMPLATE_PAIRS], 'template_engines': [list(e) for e in TEMPLATE_ENGINES],
            'import_forms': FORMS, 'variants': VARIANTS, 'parsers': ['lalr', 'earley (ambiguity=explicit, sets)'],
            'quick_thinning': 'nested/relative forms only with the plain variant' if tier == 'quick' else None}


def work(item):
    res = new_res()
    if item[0] == 'template-pair':
        check_template_pair(item[1], res)
        res['counters']['template grammars compared with their written-out form'] += 1
        res['counters'] = dict(res['counters'])
        return res
    for base, S, form, variant in item:
        res['counters']['(split, form, variant) cases'] += 1
        check_case(base, S, form, variant, res)
    res['counters'] = dict(res['counters'])
    return res


def replay(case):
    res = new_res()
    if 'template_pair' in case:
        check_template_pair(case['pair_index'], res, only=case)
        return res['viol']
    check_case(case['base'], case['moved'], case['form'], case['variant'], res, only=case)
    return res['viol']
