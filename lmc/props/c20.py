"""C20 -- the parse forest (ambiguity='forest') encodes exactly the derivations (DESIGN.md section 4, C20)."""
from lark import Tree
from lark.visitors import CollapseAmbiguities
from lark.parsers.earley_forest import (ForestVisitor, ForestTransformer, ForestSumVisitor, ForestToParseTree,
                                        TreeForestTransformer, SymbolNode, PackedNode, TokenNode)

from .. import families, gram, refsem, larkio, util, obs
from ..famrun import FamRun
from .c04 import norm_lark, norm_ref, AMB, COLL

ID = 'C20'
LEVEL = 'exploration'
RULE = ('every grammar of the plain-BNF families (incl. nullable and cyclic members) x lexer x every input up to the '
        'bound is parsed with ambiguity=forest; TreeForestTransformer(resolve_ambiguity=False)+CollapseAmbiguities is '
        'compared with the set of unshaped reference derivations (acyclic), resolve_ambiguity=True must return a member, '
        'is_ambiguous must be false for single-derivation inputs, and every visitor/transformer class must terminate '
        '(cycles reported through on_cycle). Non-trivial = accepted input with >= 2 derivations or a forest containing a '
        'cycle; distinct by construction')
ASSUMPTIONS = ['reference derivation enumerator refsem.Derivations (cap 256)', 'an independent id-based graph walk decides whether a forest has a cycle',
               'CPython re for single-terminal membership']
DEADLINE = {'quick': 900, 'thorough': 3 * 3600}


def box(name):
    B = families.BNF
    if name == 'x1':
        return dict(fam=B(2, 'x', 2, 2, render='tok'), alpha='x', lexers=('basic', 'dynamic', 'dynamic_complete'))
    if name == 'x2':
        return dict(fam=B(2, 'xy', 2, 2, render='tok'), alpha='xy', lexers=('basic', 'dynamic'))
    if name == 'dc':
        return dict(fam=B(2, 'pq', 2, 2, render=AMB), alpha='a', lexers=('dynamic_complete',))
    if name == 'ig':        # %ignore " " next to terminals that start with / can match the ignored character (dynamic lexers)
        from .c01 import AB_SP, WS
        return dict(fam=B(2, 'abcd', (2, 1), 2, render=AB_SP, ignore=('WS',), extra_terms=(WS,)), alpha='ab ', lexers=('dynamic', 'dynamic_complete'))
    if name == 'long':
        return dict(fam=B(2, 'x', (1, 2), (4, 2), render='tok'), alpha='x', lexers=('basic', 'dynamic'))
    if name == 'k3':
        return dict(fam=B(3, 'x', (2, 2, 1), 2, render='tok'), alpha='x', lexers=('basic', 'dynamic'))
    raise KeyError(name)


TIERS = {
    'quick': [('x1', 1, 4), ('dc', 8, 4), ('x2', 16, 4), ('long', 4, 4), ('ig', 16, 4)],
    'thorough': [('x1', 1, 5), ('dc', 1, 4), ('x2', 1, 4), ('long', 1, 5), ('k3', 8, 4), ('ig', 1, 4)],
}


class CountV(ForestVisitor):
    def __init__(self, single_visit):
        super().__init__(single_visit)
        self.steps = 0
        self.cycles = 0

    def visit_symbol_node_in(self, node):
        self.steps += 1
        if self.steps > 2_000_000:
            raise RuntimeError('step budget exceeded')
        return node.children

    def visit_packed_node_in(self, node):
        self.steps += 1
        return node.children

    def on_cycle(self, node, path):
        self.cycles += 1


class IdT(ForestTransformer):
    pass


class SingleV(CountV):
    """Returns a single ForestNode (not an iterable) where a packed node has one child -- the documented
    'returning a node(s) will schedule them' form."""

    def visit_packed_node_in(self, node):
        self.steps += 1
        if self.steps > 200_000:
            raise RuntimeError('step budget exceeded')
        ch = node.children
        return ch[0] if len(ch) == 1 else ch


def forest_has_cycle(root):
    """Independent walk: iterative DFS with colours over SymbolNode -> PackedNode -> left/right."""
    WHITE, GREY, BLACK = 0, 1, 2
    colour = {}
    nodes = edges = 0

    def kids(n):
        if isinstance(n, SymbolNode):
            return list(n.children)
        if isinstance(n, PackedNode):
            return [c for c in (n.left, n.right) if c is not None]
        return []
    stack = [(root, iter(kids(root)))]
    colour[id(root)] = GREY
    cyc = False
    while stack:
        n, it = stack[-1]
        for c in it:
            edges += 1
            col = colour.get(id(c), WHITE)
            if col == GREY:
                cyc = True
            elif col == WHITE:
                colour[id(c)] = GREY
                stack.append((c, iter(kids(c))))
                break
        else:
            colour[id(n)] = BLACK
            nodes += 1
            stack.pop()
    return cyc, nodes, edges


def check(g, gi, boxname, b, inputs, res, only=None):
    gtext = g.text()
    cyc = refsem.cyclic(g)
    named = set(g.terms)
    for lexer in b['lexers']:
        if only and only['lexer'] != lexer:
            continue
        r = larkio.build(gtext, parser='earley', lexer=lexer, ambiguity='forest')
        res['evals'] += 1
        if r[0] != 'ok':
            res['viol'].append({'kind': 'construction-' + larkio.outcome(r), 'cause': 'construction',
                                'case': {'box': boxname, 'gidx': gi, 'grammar': gtext, 'lexer': lexer},
                                'expected': 'constructed', 'observed': repr(r[1])[:300]})
            continue
        p = r[1]
        cbs = {rule: (lambda ch, n=str(rule.origin.name): Tree(n, ch)) for rule in p.rules}
        mode = 'longest' if lexer == 'dynamic' else 'exact'
        for w in inputs:
            if cyc and len(w) > 3:
                continue
            case = {'box': boxname, 'gidx': gi, 'grammar': gtext, 'lexer': lexer, 'input': w}

            def bad(kind, cause, exp, got):
                res['viol'].append({'kind': kind, 'cause': cause, 'case': case, 'expected': exp, 'observed': got})
            pr = larkio.parse(p, w)
            res['evals'] += 1
            if pr[0] != 'ok':
                if pr[0] == 'hang':
                    bad('hang', 'parse-hang', 'parse terminates', 'watchdog')
                continue
            root = pr[1]
            if not isinstance(root, SymbolNode):
                bad('not-a-forest', 'forest-root', 'SymbolNode root', repr(type(root)))
                continue
            hc = util.timed(lambda: forest_has_cycle(root))
            has_cycle = hc[1][0] if hc[0] == 'ok' else None
            # 1. every visitor / transformer class terminates
            walks = [('ForestVisitor(single_visit=False)', lambda: CountV(False)),
                     ('ForestVisitor(single_visit=True)', lambda: CountV(True)),
                     ('ForestVisitor(single node returned)', lambda: SingleV(False)),
                     ('ForestTransformer', lambda: IdT()),
                     ('ForestSumVisitor', lambda: ForestSumVisitor()),
                     ('ForestToParseTree', lambda: ForestToParseTree(callbacks=cbs)),
                     ('TreeForestTransformer(resolve)', lambda: TreeForestTransformer(resolve_ambiguity=True)),
                     ('TreeForestTransformer(all)', lambda: TreeForestTransformer(resolve_ambiguity=False))]
            out = {}
            for name, mk in walks:
                v = mk()
                fn = (lambda v=v: v.transform(root)) if hasattr(v, 'transform') else (lambda v=v: v.visit(root))
                if cyc and name == 'ForestVisitor(single_visit=False)' and False:
                    continue
                wr = util.timed(fn, 10)
                res['evals'] += 1
                if wr[0] == 'hang' or (wr[0] == 'exc' and 'step budget' in str(wr[1])):
                    bad('walk-hang', 'walk-termination:' + name, '%s terminates' % name, 'watchdog / step budget')
                elif wr[0] == 'exc':
                    bad('walk-error', 'walk-error:' + name, '%s returns' % name, repr(wr[1])[:200])
                out[name] = (wr, v)
            if has_cycle:
                res['counters']['forests with a cycle'] += 1
                res['nontrivial'] += 1
                for name in ('ForestVisitor(single_visit=False)', 'ForestVisitor(single_visit=True)', 'ForestVisitor(single node returned)'):
                    wr, v = out[name]
                    if wr[0] == 'ok' and v.cycles == 0:
                        bad('cycle-not-reported', 'on_cycle', 'on_cycle invoked at least once (forest has a cycle)', 'never invoked')
            elif has_cycle is False:
                for name in ('ForestVisitor(single_visit=False)', 'ForestVisitor(single_visit=True)'):
                    wr, v = out[name]
                    if wr[0] == 'ok' and v.cycles:
                        bad('spurious-cycle', 'on_cycle', 'on_cycle not invoked (forest is acyclic)', '%d calls' % v.cycles)
            wr, v = out['ForestTransformer']
            if wr[0] == 'ok' and wr[1] is not root:
                bad('identity-transformer', 'forest-transformer', 'identity ForestTransformer returns the root', repr(wr[1])[:100])
            if cyc:
                res['counters']['cyclic-grammar cases (termination only)'] += 1
                continue
            # 2. derivations
            try:
                D = refsem.derivations(g, refsem.Edges.chars(g, w, mode))
            except refsem.TooAmbiguous:
                res['counters']['skipped: more than 256 derivations'] += 1
                continue
            want = {norm_ref(refsem.unshaped(d, w)) for d in D}
            if len(D) >= 2:
                res['nontrivial'] += 1
            amb = util.timed(lambda: root.is_ambiguous)
            if len(D) == 1 and amb[0] == 'ok' and amb[1]:
                # cause predicate of the known finding (on the case): dynamic lexer, %ignore'd text actually present in the input
                # -- a sub-derivation is recorded with and without the adjacent ignored text in its span
                dup = bool(g.ignore) and lexer.startswith('dynamic') and ' ' in w
                bad('is_ambiguous', 'is_ambiguous-derivation-duplicated-around-ignored-text' if dup else 'is_ambiguous',
                    'root.is_ambiguous is False (single derivation)', True)
            wr, _ = out['TreeForestTransformer(all)']
            if wr[0] == 'ok':
                cr = util.timed(lambda: CollapseAmbiguities().transform(wr[1]), 20)
                if cr[0] == 'ok':
                    got = {norm_lark(obs.canon(t), named) for t in cr[1]}
                    if got != want:
                        bad('derivation-set', 'derivation-set', sorted(want, key=repr)[:4],
                            {'missing': sorted(want - got, key=repr)[:3], 'extra': sorted(got - want, key=repr)[:3]})
                    elif len(D) >= 2 and len(res['samples']) < 2:
                        res['samples'].append({'grammar': gtext, 'lexer': lexer, 'input': w, 'derivations': len(D)})
            for name in ('TreeForestTransformer(resolve)',):
                wr, _ = out[name]
                if wr[0] == 'ok':
                    t = norm_lark(obs.canon(wr[1]), named)
                    if t not in want:
                        bad('resolved-not-a-derivation', 'resolve-member', 'one of the derivations', t)


_run = FamRun(box, TIERS, check, chunk=48)
plan, bounds, work, replay = _run.plan, _run.bounds, _run.work, _run.replay
