"""C06 -- token and tree positions are exact source coordinates (DESIGN.md section 4, C06)."""
from lark import Tree
from lark.exceptions import UnexpectedInput

from .. import families, gram, refsem, reflex, larkio, util, obs
from ..gram import Rule, Term, Grammar
from ..famrun import FamRun, new_res
from .c04 import norm_lark, norm_ref

ID = 'C06'
LEVEL = 'exploration'
RULE = ('(a) tokens: 25 spellings of a newline-matching terminal (two of them over inputs that also contain carriage returns) (kept and %ignored) x 3 grammar shapes x 5 parser/lexer '
        'configurations x str/bytes x every input over {a, b, newline, blank} up to the bound: every token returned by parse() and '
        'lex() -- also by the instance restored with Lark.load, and by parse(on_error=skip) on inputs it recovers -- must satisfy text[start:end]==value and carry the line/column of start_pos and the (per lexer family) end '
        'coordinate computed by count("\\n"); (b) tree meta: SHAPE grammars x propagate_positions x lalr/earley x inputs with a '
        'single derivation: every node\'s meta must span the first..last token its derivation node matched (filtered ones '
        'included), nested and ordered. Non-trivial = accepted input containing a newline before its last token (a), accepted '
        'input with a filtered token at the edge of some node (b); distinct by construction')
ASSUMPTIONS = ['line/column defined by text.count(newline) / rfind (reflex.linecol)', 'end coordinate convention fixed per lexer family (basic: coordinate of end_pos; dynamic: last character + 1)',
               'tree meta judged only on inputs with exactly one reference derivation']
DEADLINE = {'quick': 900, 'thorough': 3 * 3600}

NLSPELL = ['"\\n"', '/\\n/', '/\\n+/', '/\\s+/', '/[\\s]+/', '/[^ab]+/', '/\\W+/', '/\\D+/', '/[\\x00-\\x20]+/', '/\\x0a/', '/\\012+/',
           '/[\\t-\\r ]+/', '/./s', '/(.|\\n)+/', '/[^ab]/s', '/(?s:.)/', '/[\\N{LINE FEED}]+/', '/(\\r?\\n)+/', '/\\n[ ]*/', '/./is', '/./si', '/(.)+/ms', '/\\n/i',
           '/[\\r\\n]+/', '/[;\\x0a]+/']      # the last two: inputs also contain carriage returns (a lone \\r is not a line break)
SHAPE_BODIES = ['start: (A | B | N)*', 'start: A (N A)* B?', 'start: a*\na: A N? | B N']
SHAPE_BODIES_IGN = ['start: (A | B)*', 'start: A (A)* B?', 'start: a*\na: A | B A?']
CONFIGS = [('lalr', 'basic'), ('lalr', 'contextual'), ('earley', 'basic'), ('earley', 'dynamic'), ('earley', 'dynamic_complete')]


def tok_grammar(si, spell, ignored):
    body = (SHAPE_BODIES_IGN if ignored else SHAPE_BODIES)[si]
    return '%s\nA: "a"\nB: "b"\nN: %s\n%s' % (body, spell, '%ignore N\n' if ignored else '')


def plan(tier, seed):
    L = 4 if tier == 'quick' else 5
    items = [('tok', si, ni, ign, L) for si in range(3) for ni in range(len(NLSPELL)) for ign in (False, True)]
    items += [('rec', gi, L + 1) for gi in range(len(REC_GRAMMARS))]
    for name, k, Lm in (META_TIERS[tier]):
        items += [('meta',) + it for it in _meta.plan_box(name, k, Lm, seed)]
    return items


def bounds(tier, seed):
    return {'tokens': {'newline_spellings': NLSPELL, 'shapes': SHAPE_BODIES, 'configs': CONFIGS, 'representations': ['str', 'bytes'],
                       'input_alphabet': 'ab\\n ', 'max_input_len': 4 if tier == 'quick' else 5},
            'meta': [{'box': n, 'slice': '%d mod %d' % (seed % k, k), 'max_input_len': L} for n, k, L in META_TIERS[tier]]}


def check_token(t, text, family, bad, where):
    """One token against the coordinate definition."""
    bm = isinstance(text, bytes)
    val = t.value
    sp, ep = t.start_pos, t.end_pos
    if sp is None or ep is None or text[sp:ep] != (val if isinstance(val, type(text)) else (val.encode('latin1') if bm else val)):
        bad('token-slice', 'slice', 'text[start_pos:end_pos] == value', {'start_pos': sp, 'end_pos': ep, 'value': repr(val)}, where)
        return False
    want = reflex.linecol(text, sp)
    if (t.line, t.column) != want:
        bad('token-start-coordinate', 'start-coordinate', {'start_pos': sp, 'line,column': want}, {'line,column': (t.line, t.column), 'token': repr(val)}, where)
        return False
    wend = reflex.linecol(text, ep) if family == 'basic' else reflex.end_linecol_dynamic(text, ep)
    if (t.end_line, t.end_column) != wend:
        bad('token-end-coordinate', 'end-coordinate', {'end_pos': ep, 'end_line,end_column': wend}, {'end_line,end_column': (t.end_line, t.end_column), 'token': repr(val)}, where)
        return False
    return True


def nl_heuristic_miss(spell):
    """Cause predicate of finding #2 (textual newline heuristic), evaluated on the terminal spelling only: the heuristic
    looks at the regexp text *after* the grammar loader has evaluated \\xNN / \\uNNNN / \\n-style escapes (so /\\x0a/ contains
    a real line feed and is recognised), and fires on a line feed, the two-character text \\n, \\s, a negated class, or a
    dot under the s flag."""
    import re as _r
    src = spell.strip('"') if spell.startswith('"') else spell[1:spell.rindex('/')]
    flags = spell[spell.rindex('/') + 1:] if spell.startswith('/') else ''
    ev = _r.sub(r'\\x([0-9a-fA-F]{2})', lambda m: chr(int(m.group(1), 16)), src)
    ev = _r.sub(r'\\u([0-9a-fA-F]{4})', lambda m: chr(int(m.group(1), 16)), ev)
    textual = '\n' in ev or '\\n' in ev or '\\s' in ev or '[^' in ev or (('(?s' in ev or 's' in flags) and '.' in ev)
    return not textual


def work_tok(item, res, only=None):
    _, si, ni, ignored, L = item
    spell = NLSPELL[ni]
    gtext = tok_grammar(si, spell, ignored)
    inputs = list(util.strings('a\r\n;' if ni >= 23 else 'ab\n ', L))
    for parser, lexer in CONFIGS:
        for use_bytes in (False, True):
            if only and (only['parser'], only['lexer'], only['use_bytes']) != (parser, lexer, use_bytes):
                continue
            cfg = {'mode': 'tok', 'shape': si, 'spelling': spell, 'ignored': ignored, 'grammar': gtext, 'parser': parser,
                   'lexer': lexer, 'use_bytes': use_bytes, 'item': list(item)}
            r = larkio.build(gtext, parser=parser, lexer=lexer, use_bytes=use_bytes)
            res['evals'] += 1
            if r[0] != 'ok':
                res['counters']['unsupported: construction refused (%s)' % ('bytes' if use_bytes else 'str')] += 1
                continue
            p = r[1]
            loaded = None
            family = 'dynamic' if lexer.startswith('dynamic') else 'basic'
            for w in inputs:
                if only and only.get('input') != w:
                    continue
                text = w.encode('latin1') if use_bytes else w
                viol = []

                def bad(kind, cause, exp, got, where, w=w):
                    c = cause
                    if family == 'basic' and kind != 'token-slice' and nl_heuristic_miss(spell):
                        c = 'newline-heuristic-miss'
                    viol.append({'kind': kind, 'cause': c, 'case': dict(cfg, input=w, via=where), 'expected': exp, 'observed': got})
                pr = larkio.parse(p, text)
                res['evals'] += 1
                if pr[0] == 'hang':
                    bad('hang', 'hang', 'terminates', 'watchdog', 'parse')
                elif pr[0] == 'ok':
                    toks = [t for t in pr[1].scan_values(lambda v: hasattr(v, 'type'))] if isinstance(pr[1], Tree) else []
                    if '\n' in w[:-1]:
                        res['nontrivial'] += 1
                    for t in toks:
                        if not check_token(t, text, family, bad, 'parse'):
                            break
                    if len(res['samples']) < 2 and len(toks) >= 2 and '\n' in w[:-1] and not viol:
                        res['samples'].append({'grammar': gtext, 'engine': parser + '/' + lexer, 'bytes': use_bytes, 'input': w,
                                               'tokens': [obs.tok(t) for t in toks]})
                elif not isinstance(pr[1], UnexpectedInput):
                    bad('error-class', 'error-class', 'UnexpectedInput', repr(pr[1])[:200], 'parse')
                if parser == 'lalr' and pr[0] == 'ok':
                    # the same lexer restored from its serialised form (Lark.save / Lark.load): also "a lexer"
                    if loaded is None:
                        loaded = restore(p)
                    lp = larkio.parse(loaded, text) if loaded is not False else None
                    res['evals'] += 1
                    if lp is not None and lp[0] == 'ok' and isinstance(lp[1], Tree):
                        for t in lp[1].scan_values(lambda v: hasattr(v, 'type')):
                            if not check_token(t, text, family, bad, 'parse on the instance restored by Lark.load'):
                                break
                    elif lp is not None:
                        bad('restored-instance-rejects', 'restored', 'a tree', repr(lp[1])[:200], 'parse on the instance restored by Lark.load')
                if family == 'basic' and parser == 'lalr' and lexer == 'basic':
                    lr = util.timed(lambda: list(p.lex(text)))
                    res['evals'] += 1
                    if lr[0] == 'ok':
                        for t in lr[1]:
                            if not check_token(t, text, family, bad, 'lex'):
                                break
                res['viol'].extend(viol[:1])


def restore(p):
    import io
    try:
        buf = io.BytesIO()
        p.save(buf)
        return type(p).load(io.BytesIO(buf.getvalue()))
    except Exception:
        return False


# --------------------------------------------------------------------------------------------------- recovered input

REC_GRAMMARS = [
    'start: (A | B)*\nA: "a"\nB: "b"\n%ignore " "\n',                          # a line break is not lexable at all
    'start: (A | B | N)*\nA: "a"\nB: "b"\nN: /\\n b/\n',                       # ... lexable only together with what follows
    'start: A (N A)* B?\nA: "a"\nB: "b"\nN: "\\n"\n%ignore " "\n',            # lexable, unexpected by the parser (token dropped)
]


def work_rec(item, res, only=None):
    """parse(text, on_error=...) with a handler that lets lark skip the offending character / token: the tokens of the
    tree that comes back are still tokens of *this* text and must carry its coordinates."""
    _, gi, L = item
    gtext = REC_GRAMMARS[gi]
    inputs = list(util.strings('ab\n ', L))
    for lexer in ('basic', 'contextual'):
        for use_bytes in (False, True):
            if only and (only['lexer'], only['use_bytes']) != (lexer, use_bytes):
                continue
            r = larkio.build(gtext, parser='lalr', lexer=lexer, use_bytes=use_bytes)
            res['evals'] += 1
            if r[0] != 'ok':
                res['viol'].append({'kind': 'construction', 'cause': 'construction', 'case': {'mode': 'rec', 'item': list(item), 'grammar': gtext, 'lexer': lexer, 'use_bytes': use_bytes},
                                    'expected': 'constructed', 'observed': repr(r[1])[:200]})
                continue
            p = r[1]
            for w in inputs:
                if only and only.get('input') != w:
                    continue
                text = w.encode('latin1') if use_bytes else w
                errors = []

                def handler(e):
                    errors.append(type(e).__name__)
                    return len(errors) < 20
                pr = util.timed(lambda: p.parse(text, on_error=handler))
                res['evals'] += 1
                if pr[0] != 'ok' or not isinstance(pr[1], Tree) or not errors:
                    continue
                viol = []

                def bad(kind, cause, exp, got, where, w=w):
                    viol.append({'kind': kind, 'cause': cause, 'case': {'mode': 'rec', 'item': list(item), 'grammar': gtext, 'lexer': lexer,
                                                                       'use_bytes': use_bytes, 'input': w, 'via': where, 'errors_handled': errors},
                                 'expected': exp, 'observed': got})
                toks = list(pr[1].scan_values(lambda v: hasattr(v, 'type')))
                if '\n' in w[:-1] and toks:
                    res['nontrivial'] += 1
                    res['counters']['recovered inputs (on_error) with a line break, tokens checked'] += 1
                for t in toks:
                    if not check_token(t, text, 'basic', bad, 'parse(on_error=skip)'):
                        break
                res['viol'].extend(viol[:1])


# --------------------------------------------------------------------------------------------------- tree meta

def shape_spans(node, g, text, keep_all, ph):
    """Like refsem.shape but every surviving tree node carries the span (first token start, last token end) of its
    derivation node, filtered tokens included.  Returns (shaped, span, lossy) where lossy tells whether a collapsing
    ?rule matched tokens outside its surviving child (finding #15)."""
    lossy = [False]

    def span_of(nd):
        toks = []

        def walk(n):
            for ev in n[3]:
                if ev[0] == 't':
                    toks.append((ev[2], ev[3]))
                elif ev[0] == 'n':
                    walk(ev)
        walk(nd)
        return (min(a for a, _ in toks), max(b for _, b in toks)) if toks else None

    def sh(nd):
        _, rname, ai, events = nd
        rule = g.rules[rname]
        alias = rule.alts[ai][1]
        ch = []
        for ev in events:
            if ev[0] == 't':
                if refsem.tok_kept(ev[1], rule, keep_all):
                    ch.append(('tok', ev[1], text[ev[2]:ev[3]], (ev[2], ev[3])))
            elif ev[0] == 'none':
                if ph:
                    ch.extend([None] * refsem.maybe_width(ev[1], keep_all or '!' in rule.mod))
            else:
                sub = sh(ev)
                if sub[0] == 'splice':
                    ch.extend(sub[1])
                elif sub[0] == 'one':
                    ch.append(sub[1])
                else:
                    ch.append(sub)
        me = span_of(nd)
        if '?' in rule.mod and not alias and len(ch) == 1:
            c = ch[0]
            cspan = None if c is None else c[3]
            if c is None or c[0] == 'tok':
                if cspan != me:
                    lossy[0] = True
            return ('one', c)
        if rule.name.startswith('_') and not alias:
            return ('splice', ch)
        return ('tree', alias or rule.name.split('{')[0], tuple(ch), me)
    r = sh(node)
    return (r[1] if r[0] == 'one' else r), lossy[0]


def compare_meta(ref, t, text, bad, path='start', family='basic'):
    """Walk the reference shaped tree and lark's tree in parallel (the reference tree is finite, so is the walk)."""
    if ref is None or ref[0] == 'tok':
        return True
    if not isinstance(t, Tree) or str(t.data) != ref[1] or len(t.children) != len(ref[2]):
        return True     # shape differences are C03's business
    span = ref[3]
    m = t.meta
    if span is None:
        if not m.empty:
            bad('meta-not-empty', 'meta', {'node': path, 'meta.empty': True}, {'start_pos': getattr(m, 'start_pos', None), 'end_pos': getattr(m, 'end_pos', None)})
            return False
    else:
        want = {'start_pos': span[0], 'end_pos': span[1]}
        want['line'], want['column'] = reflex.linecol(text, span[0])
        want['end_line'], want['end_column'] = reflex.linecol(text, span[1]) if family == 'basic' else reflex.end_linecol_dynamic(text, span[1])
        got = {k: getattr(m, k, None) for k in want} if not m.empty else {'empty': True}
        if got != want:
            bad('meta-span', 'meta', dict(want, node=path), got)
            return False
    for i, (rc, c) in enumerate(zip(ref[2], t.children)):
        if not compare_meta(rc, c, text, bad, '%s/%d' % (path, i), family):
            return False
    return True


NL_TERMS = (Term('X', (('str', 'x', ''),)), Term('_Y', (('str', 'y\n', ''),)))    # the filtered terminal ends in a newline


def meta_box(name):
    if name == 'm1':
        return dict(fam=families.SHAPE(1, spellings=(('a', ''), ('_a', ''), ('a', '?'), ('a', '!')), terms=NL_TERMS), alpha=('x', 'y\n', 'z', 'w'), chunk=12)
    if name == 'm2':
        return dict(fam=families.SHAPE(2, spellings=(('a', ''), ('_a', ''), ('a', '?')), terms=NL_TERMS), alpha=('x', 'y\n', 'z', 'w'), chunk=24)
    raise KeyError(name)


META_TIERS = {'quick': [('m1', 1, 3), ('m2', 24, 3)], 'thorough': [('m1', 1, 4), ('m2', 2, 3)]}
META_ENGINES = (('lalr', 'contextual'), ('earley', 'dynamic'), ('earley', 'basic'))


def check_meta(g, gi, boxname, b, inputs, res, only=None):
    gtext = g.text()
    gref = gram.instantiate_templates(g)
    derivs = {}
    for w in inputs:
        try:
            D = refsem.derivations(gref, refsem.Edges.chars(gref, w, 'exact'))
        except refsem.TooAmbiguous:
            continue
        if len(D) == 1:
            derivs[w] = next(iter(D))
    if not derivs:
        return
    for ph in (False, True):
        for parser, lexer in META_ENGINES:
            if only and (only['parser'], only['lexer'], only['maybe_placeholders']) != (parser, lexer, ph):
                continue
            r = larkio.build(gtext, parser=parser, lexer=lexer, propagate_positions=True, maybe_placeholders=ph)
            res['evals'] += 1
            if r[0] != 'ok':
                res['counters']['unsupported: construction refused'] += 1
                continue
            for w, d in derivs.items():
                pr = larkio.parse(r[1], w)
                res['evals'] += 1
                if pr[0] != 'ok' or not isinstance(pr[1], Tree):
                    continue
                ref, lossy = shape_spans(d, gref, w, False, ph)
                case = {'mode': 'meta', 'box': boxname, 'gidx': gi, 'grammar': gtext, 'parser': parser, 'lexer': lexer,
                        'maybe_placeholders': ph, 'input': w}
                viol = []

                def bad(kind, cause, exp, got):
                    viol.append({'kind': kind, 'cause': 'collapsed-?rule-loses-filtered-edge-tokens' if lossy else cause, 'case': case,
                                 'expected': exp, 'observed': got})
                if ref is not None and ref[0] == 'tree':
                    edge = _has_filtered_edge(d, gref)
                    if edge:
                        res['nontrivial'] += 1
                    compare_meta(ref, pr[1], w, bad, family='dynamic' if lexer.startswith('dynamic') else 'basic')
                    if not viol and edge and len(res['samples']) < 2 and len(w) >= 2:
                        res['samples'].append({'grammar': gtext, 'engine': parser + '/' + lexer, 'input': w,
                                               'root_span': ref[3], 'root_meta': obs.meta_of(pr[1])})
                res['viol'].extend(viol[:1])


def _has_filtered_edge(d, g):
    rule = g.rules[d[1]]
    evs = [ev for ev in d[3] if ev[0] in ('t', 'n')]
    if evs and ((evs[0][0] == 't' and not refsem.tok_kept(evs[0][1], rule, False)) or (evs[-1][0] == 't' and not refsem.tok_kept(evs[-1][1], rule, False))):
        return True
    return any(_has_filtered_edge(ev, g) for ev in d[3] if ev[0] == 'n')


class _Meta(FamRun):
    def plan_box(self, name, k, L, seed):
        fam = self.box(name)['fam']
        n = len(families.slice_indices(len(fam), k, seed))
        ch = self.box(name).get('chunk', self.chunk)
        return [(name, k, seed % k, lo, min(n, lo + ch), L) for lo in range(0, n, ch)]


_meta = _Meta(meta_box, META_TIERS, check_meta, chunk=16)


def work(item):
    if item[0] == 'tok':
        res = new_res()
        work_tok(item, res)
        res['counters'] = dict(res['counters'])
        return res
    if item[0] == 'rec':
        res = new_res()
        work_rec(item, res)
        res['counters'] = dict(res['counters'])
        return res
    return _meta.work(item[1:])


def replay(case):
    if case.get('mode') == 'rec':
        res = new_res()
        work_rec(tuple(case['item']), res, only=case)
        return res['viol']
    if case.get('mode') == 'tok':
        res = new_res()
        work_tok(tuple(case['item']), res, only=case)
        return res['viol']
    return _meta.replay(case)
