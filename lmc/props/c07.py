"""C07 -- the lexer tiles the input by documented precedence; contextual refines basic (DESIGN.md section 4, C07)."""
import itertools
import types
import re as _re

from lark import Lark
from lark.exceptions import UnexpectedCharacters, UnexpectedInput, GrammarError, LexError

from .. import reflex, reflalr, larkio, util, obs, gram
from ..reflex import TDef, INF
from ..gram import Rule, Term, Grammar
from ..famrun import new_res

ID = 'C07'
LEVEL = 'exploration'
RULE = ('every subset (size 2..4) of a 17-entry terminal menu (strings, regexps, case-insensitive and verbose flags) x priority '
        'assignment x two naming schemes x str/bytes x every input up to the bound is lexed by Lark(lexer=basic).lex and '
        'compared token by token with a reference lexer implementing the documented order and keyword exception; a '
        '130-terminal set is lexed natively and with a shim re module that enforces the 100-group limit (chunking path); '
        'for 3 LALR grammar shapes over each set whose regexps do not overlap, lexer=contextual is compared with lexer=basic '
        '(same tree whenever basic parses) and with the reference tiling restricted to the reference automaton\'s acceptable '
        'terminals. Non-trivial = input on which at least two terminals of the set match at some position; distinct by construction')
ASSUMPTIONS = ['CPython re decides what one terminal matches at a position (one terminal at a time)',
               'maximal widths of the menu terminals are hand-annotated (len for strings, unbounded for + / *)',
               'keyword exception read as: the regexp matches the string terminal\'s literal in full and the token text full-matches the string under its own flags']
DEADLINE = {'quick': 900, 'thorough': 3 * 3600}

# (kind, value, flags, declared max width)
MENU = [
    ('str', 'a', '', None), ('str', 'ab', '', None), ('str', 'abc', '', None), ('str', 'b', '', None),
    ('str', 'if', '', None), ('str', 'if', 'i', None), ('str', 'ba', '', None),
    ('re', 'a+', '', INF), ('re', '[ab]+', '', INF), ('re', 'ab?', '', 2), ('re', '[a-z]+', '', INF),
    ('re', '[a-z]+', 'i', INF), ('re', 'i[a-z]', '', 2), ('re', '[abc]', '', 1), ('re', 'ab|a', '', 2), ('re', 'b+a?', '', INF),
    ('re', 'a  ', 'x', 1),      # verbose regexp: the blanks are not part of the pattern (true maximal width 1, written length 3)
]
NAMES = ('TA', 'TB', 'TC', 'TD')


def termsets(size, prio_mode):
    """prio_mode 'one': at most one terminal has priority 1; 'all': every 0/1 assignment."""
    for combo in itertools.combinations(range(len(MENU)), size):
        if prio_mode == 'one':
            prios = [tuple(1 if i == j else 0 for i in range(size)) for j in range(-1, size)]
        else:
            prios = list(itertools.product((0, 1), repeat=size))
        for pr in prios:
            for rev in (False, True):
                yield combo, pr, rev


def make_tdefs(combo, pr, rev):
    names = NAMES[:len(combo)][::-1] if rev else NAMES[:len(combo)]
    return [TDef(n, MENU[i][0], MENU[i][1], MENU[i][2], p, MENU[i][3]) for n, i, p in zip(names, combo, pr)]


def grammar_text(tdefs, body=None, ignore=None):
    lines = ['start: (%s)*' % ' | '.join(t.name for t in tdefs if not ignore or t.name != ignore) if body is None else body]
    lines += [t.text() for t in tdefs]
    if ignore:
        lines.append('%%ignore %s' % ignore)
    return '\n'.join(lines) + '\n'


SETS = {}


def sets_of(key):
    if key not in SETS:
        size, mode = key
        SETS[key] = list(termsets(size, mode))
    return SETS[key]


QUICK = [((2, 'all'), 4, 1), ((3, 'one'), 3, 3), ((4, 'one'), 3, 16)]          # (set family, input length, slice modulus)
THOROUGH = [((2, 'all'), 5, 1), ((3, 'all'), 4, 1), ((4, 'one'), 4, 1)]
ALPHA = 'abifI'
CHUNK = 40


def plan(tier, seed):
    items = []
    for key, L, k in (QUICK if tier == 'quick' else THOROUGH):
        n = len(range(seed % k, len(sets_of(key)), k))
        for lo in range(0, n, CHUNK):
            items.append(('sets', key, L, k, seed % k, lo, min(n, lo + CHUNK)))
    items.append(('big', 130, 0))
    items.append(('big', 130, 1))
    items.append(('big', 130, 2))     # shim, no NAME: the main scanner itself is chunked
    if tier == 'thorough':
        items.append(('big', 260, 1))
    return items


def bounds(tier, seed):
    return [{'terminal_sets': '%d-subsets of a %d-entry menu, priorities %s' % (key[0], len(MENU), key[1]),
             'sets': len(sets_of(key)), 'slice': '%d mod %d' % (seed % k, k) if k > 1 else 'complete',
             'input_alphabet': ALPHA, 'max_input_len': L} for key, L, k in (QUICK if tier == 'quick' else THOROUGH)] + \
           [{'terminal_sets': '130 string terminals, native and with a shim re enforcing the 100-group limit'}]


class OneLexer:
    """Lark.lex() builds a new BasicLexer on every call (2 ms with the collision check); build it once per terminal
    set through the same Lark._build_lexer and drive it exactly as Lark.lex does.  Lark.lex itself is used for the
    inputs of length <= 1 so that the public path stays covered."""

    def __init__(self, p):
        self.p = p
        self.lexer = p._build_lexer()

    def lex(self, text):
        if len(text) <= 1:
            return self.p.lex(text)
        from lark.lexer import LexerThread
        return LexerThread.from_text(self.lexer, text).lex(None)


def lark_lex(p, text):
    r = util.timed(lambda: [(t.type, t.value if isinstance(t.value, str) else t.value.decode('latin1'), t.start_pos) for t in p.lex(text)])
    if r[0] == 'ok':
        return ('ok', r[1])
    if r[0] == 'exc' and isinstance(r[1], UnexpectedCharacters):
        return ('err', r[1].pos_in_stream)
    return ('bad', repr(r[1])[:200])


def overlapping_regexps(tdefs, inputs):
    """Do two regexp terminals match at a common position of some input?  (side condition of the contextual clause)"""
    res = [t for t in tdefs if t.kind == 're']
    for a, b in itertools.combinations(res, 2):
        ra, rb = reflex.compile_pat(a.pat), reflex.compile_pat(b.pat)
        for w in inputs:
            for i in range(len(w)):
                if ra.match(w, i) and rb.match(w, i):
                    return True
    return False


SHAPES = [
    # BNF shapes over the (up to 3) terminal names N0, N1, N2 ; used for the contextual clause
    lambda n: [Rule('start', '', None, (((), None), ((('ref', 'start'), ('tok', n[0])), None), ((('ref', 'start'), ('tok', n[1])), None)) +
                    ((((('ref', 'start'), ('tok', n[2])), None),) if len(n) > 2 else ()))],
    lambda n: [Rule('start', '', None, (((('tok', n[0]), ('tok', n[1])), None), ((('tok', n[1]), ('tok', n[-1])), None),
                                        ((('tok', n[0]), ('ref', 'start')), None)))],
    lambda n: [Rule('start', '', None, (((('tok', n[0]),), None), ((('tok', n[1]), ('ref', 'start'), ('tok', n[-1])), None)))],
]


def check_set(combo, pr, rev, inputs, res, only=None):
    tdefs = make_tdefs(combo, pr, rev)
    case0 = {'combo': list(combo), 'prios': list(pr), 'rev': rev, 'terminals': [t.text() for t in tdefs]}

    def bad(kind, cause, exp, got, **kw):
        res['viol'].append({'kind': kind, 'cause': cause, 'case': dict(case0, **kw), 'expected': exp, 'observed': got})
    for use_bytes in (False, True):
        gtext = grammar_text(tdefs)
        r = larkio.build(gtext, parser='lalr', lexer='basic', use_bytes=use_bytes)
        res['evals'] += 1
        if r[0] != 'ok':
            bad('construction', 'construction', 'constructed', repr(r[1])[:300], use_bytes=use_bytes)
            continue
        p = OneLexer(r[1])
        for w in inputs:
            text = w.encode('latin1') if use_bytes else w
            want = reflex.lex_basic(tdefs, (), text)
            got = lark_lex(p, text)
            res['evals'] += 1
            multi = not use_bytes and any(sum(1 for t in tdefs if reflex.compile_pat(t.pat).match(w, i)) >= 2 for i in range(len(w)))
            if multi:
                res['nontrivial'] += 1
            w_ = ('ok', want[1]) if want[0] == 'ok' else ('err', want[1])
            if got != w_:
                bad('tiling', 'tiling', w_, got, input=w, use_bytes=use_bytes)
            elif multi and len(res['samples']) < 2 and len(w) >= 3:
                res['samples'].append({'terminals': case0['terminals'], 'input': w, 'use_bytes': use_bytes, 'tokens': got[1]})
    # ignored terminal variant: the last terminal of the set is %ignore'd.  Not judged when the ignored terminal is
    # in a keyword relation with a kept one (an ignored regexp covering a kept string or vice versa): the statement
    # does not say whether "ignored" is decided before or after the keyword re-typing.
    ign = tdefs[-1].name
    it = tdefs[-1]
    related = any(a.kind == 're' and b.kind == 'str' and a.prio == b.prio and reflex._re_matches_literal(a, b, False)
                  for a, b in [(it, o) for o in tdefs[:-1]] + [(o, it) for o in tdefs[:-1]])
    r = ('skip',) if related else larkio.build(grammar_text(tdefs, ignore=ign), parser='lalr', lexer='basic')
    res['evals'] += 1
    if related:
        res['counters']['ignore variant skipped: ignored terminal in a keyword relation'] += 1
    elif r[0] == 'ok':
        pl = OneLexer(r[1])
        for w in inputs:
            want = reflex.lex_basic(tdefs, (ign,), w)
            got = lark_lex(pl, w)
            res['evals'] += 1
            w_ = ('ok', want[1]) if want[0] == 'ok' else ('err', want[1])
            if got != w_:
                bad('tiling-ignore', 'tiling', w_, got, input=w, ignore=ign)
    else:
        bad('construction', 'construction', 'constructed', repr(r[1])[:300], ignore=ign)
    # the same with the ignored terminal written inline (`%ignore "x"` / `%ignore /x/`): an anonymous terminal of default
    # priority named __IGNORE_0
    if not related and it.prio == 0:
        inl = TDef('__IGNORE_0', it.kind, it.value, it.flags, 0, it.width)
        tdefs2 = tdefs[:-1] + [inl]
        gtext = '\n'.join(['start: (%s)*' % ' | '.join(t.name for t in tdefs[:-1])] + [t.text() for t in tdefs[:-1]] +
                          ['%%ignore %s' % gram.pat_text(it.pat)]) + '\n'
        r = larkio.build(gtext, parser='lalr', lexer='basic')
        res['evals'] += 1
        if r[0] == 'ok':
            pl = OneLexer(r[1])
            for w in inputs:
                want = reflex.lex_basic(tdefs2, (inl.name,), w)
                got = lark_lex(pl, w)
                res['evals'] += 1
                w_ = ('ok', want[1]) if want[0] == 'ok' else ('err', want[1])
                if got != w_:
                    bad('tiling-ignore-inline', 'tiling', w_, got, input=w, ignore_inline=gram.pat_text(it.pat))
        else:
            bad('construction', 'construction', 'constructed', repr(r[1])[:300], ignore_inline=gram.pat_text(it.pat))
    # contextual clause
    if len(tdefs) > 3 or overlapping_regexps(tdefs, inputs):
        res['counters']['contextual clause skipped: overlapping regexps or 4 terminals'] += 1
        return
    names = [t.name for t in tdefs]
    for si, shape in enumerate(SHAPES):
        rules = shape(names)
        g = Grammar(rules, [])
        body = '\n'.join(gram.rule_text(r_) for r_ in rules)
        gtext = grammar_text(tdefs, body=body)
        rb = larkio.build(gtext, parser='lalr', lexer='basic')
        rc = larkio.build(gtext, parser='lalr', lexer='contextual')
        res['evals'] += 2
        if rb[0] != 'ok' or rc[0] != 'ok':
            if (rb[0] == 'ok') != (rc[0] == 'ok'):
                bad('construction-differs', 'construction', repr(rb)[:100], repr(rc)[:100], shape=si)
            res['counters']['contextual clause: lalr refuses the grammar'] += 1
            continue
        g.terms = {t.name: Term(t.name, (t.pat,), t.prio) for t in tdefs}
        ref = reflalr.RefLALR(g)
        for w in inputs:
            if len(w) > 3:
                continue
            pb = larkio.parse(rb[1], w)
            pc = larkio.parse(rc[1], w)
            res['evals'] += 2
            if pb[0] == 'ok':
                res['counters']['contextual clause: inputs parsed by lexer=basic'] += 1
                if pc[0] != 'ok' or obs.canon(pc[1], pos=True) != obs.canon(pb[1], pos=True):
                    bad('contextual-differs', 'contextual-refines-basic', obs.canon(pb[1], pos=True),
                        obs.canon(pc[1], pos=True) if pc[0] == 'ok' else repr(pc[1])[:200], input=w, shape=si)
            # restricted reference tiling
            sim = ref.sim()

            def allowed(toks_so_far, sim=sim):
                s = ref.sim()
                for typ, _, _ in toks_so_far:
                    if s.feed(('tok', typ)) != 'shift':
                        return set()
                return {k[1] for k in s.terminals() if k != reflalr.END and k[0] == 'tok'}
            want = reflex.lex_basic(tdefs, (), w, allowed=allowed)
            if want[0] == 'ok':
                s = ref.sim()
                ok = all(s.feed(('tok', typ)) == 'shift' for typ, _, _ in want[1]) and s.feed(reflalr.END) == 'accept'
                if ok:
                    if pc[0] != 'ok':
                        bad('contextual-rejects', 'contextual-tiling', [x[:2] for x in want[1]], repr(pc[1])[:200], input=w, shape=si)
                    else:
                        toks = [(t.type, str(t), t.start_pos) for t in pc[1].scan_values(lambda v: hasattr(v, 'type'))]
                        if sorted(toks, key=lambda x: x[2]) != want[1]:
                            bad('contextual-tokens', 'contextual-tiling', want[1], toks, input=w, shape=si)
                elif pc[0] == 'ok':
                    bad('contextual-accepts', 'contextual-tiling', 'rejection (restricted tiling is not a sentence)', obs.canon(pc[1]), input=w, shape=si)
            elif pc[0] == 'ok':
                bad('contextual-accepts', 'contextual-tiling', 'lexing error at %d' % want[1], obs.canon(pc[1]), input=w, shape=si)


def shim_re(limit=100):
    """A re-like module that refuses more than `limit` groups, as CPython < 3.11 did (AssertionError)."""
    m = types.ModuleType('shim_re')
    m.__dict__.update({k: getattr(_re, k) for k in dir(_re) if not k.startswith('__')})

    def compile(pattern, flags=0):
        c = _re.compile(pattern, flags)
        if c.groups > limit:
            raise AssertionError('sorry, but this version only supports %d named groups' % limit)
        return c
    m.compile = compile
    return m


def big_set(n):
    """n string terminals over {a,b,c,d}: all strings of length 1..4 in enumeration order, named K000.."""
    vals = list(itertools.islice((s for s in util.strings('abcd', 4, 1)), n))
    out = [TDef('K%03d' % i, 'str', v) for i, v in enumerate(vals)]
    # a high-priority one-character terminal (sorted first) whose two-character extension has default priority and is
    # sorted beyond index 100: the documented order must win even if a later alternation chunk could match more text
    out += [TDef('HI', 'str', 'e', '', 2), TDef('LO', 'str', 'ef'), TDef('F', 'str', 'f'), TDef('HJ', 'str', 'g', '', 1), TDef('LP', 'str', 'gf')]
    return out


def check_big(n, shim, res, only=None):
    from lark.lexer import BasicLexer
    tdefs = big_set(n)
    if shim != 2:
        tdefs.append(TDef('NAME', 're', '[a-d]+', '', 0, INF))    # all strings become keywords of NAME (unless-scanner)
    gtext = 'start: (%s)*\n%s\n' % (' | '.join(t.name for t in tdefs), '\n'.join(t.text() for t in tdefs))
    case0 = {'big': n, 'shim': shim}
    r = larkio.build(gtext, parser='lalr', lexer='basic', timeout=60)
    if r[0] != 'ok':
        res['viol'].append({'kind': 'construction', 'cause': 'construction', 'case': case0, 'expected': 'constructed', 'observed': repr(r[1])[:300]})
        return
    p = r[1]
    lexer = p._build_lexer()
    chunks = None
    if shim:
        lexer.re = shim_re()        # before the lazy scanner is built: _build_mres must split the alternation
        chunks = len(lexer.scanner._mres) + sum(len(cb.scanner._mres) for cb in lexer.callback.values() if hasattr(cb, 'scanner'))
        res['counters']['chunking: alternation chunks with the 100-group shim'] = chunks
        if chunks < 2:
            res['viol'].append({'kind': 'shim-ineffective', 'cause': 'harness', 'case': case0, 'expected': '>= 2 chunks', 'observed': chunks})
    from lark.lexer import LexerThread
    vals = [t.value for t in tdefs if t.kind == 'str']
    # inputs: every pair of terminal values from a window around the chunk boundaries + all strings <= 4 over abcd
    inputs = list(util.strings('abcd', 4)) + ['ef', 'efef', 'aef', 'gf', 'gfef', 'fgf', 'efg', 'abcdef']
    edge = [v for i, v in enumerate(vals) if i % 50 in (0, 1, 48, 49) or i >= n - 4]
    inputs += [a + b for a in edge for b in edge]
    for w in inputs:
        want = reflex.lex_basic(tdefs, (), w)
        got = util.timed(lambda: [(t.type, str(t), t.start_pos) for t in LexerThread.from_text(lexer, w).lex(None)])
        res['evals'] += 1
        res['nontrivial'] += 1
        g_ = ('ok', got[1]) if got[0] == 'ok' else ('err', getattr(got[1], 'pos_in_stream', repr(got[1])[:100]))
        w_ = ('ok', want[1]) if want[0] == 'ok' else ('err', want[1])
        if g_ != w_:
            res['viol'].append({'kind': 'tiling-big', 'cause': 'tiling-chunked' if shim else 'tiling', 'case': dict(case0, input=w),
                                'expected': w_, 'observed': g_})
    if len(res['samples']) < 1:
        res['samples'].append({'terminals': n + 1, 'shim': shim, 'chunks': chunks, 'inputs': len(inputs), 'example': inputs[-1]})


def work(item):
    res = new_res()
    if item[0] == 'big':
        check_big(item[1], item[2], res)
    else:
        _, key, L, k, r, lo, hi = item
        inputs = list(util.strings(ALPHA, L))
        sets = sets_of(key)
        for idx in list(range(r, len(sets), k))[lo:hi]:
            combo, pr, rev = sets[idx]
            res['counters']['terminal sets'] += 1
            check_set(combo, pr, rev, inputs, res)
    res['counters'] = dict(res['counters'])
    return res


def replay(case):
    res = new_res()
    if 'big' in case:
        check_big(case['big'], case['shim'], res)
        return [v for v in res['viol'] if v['case'].get('input') == case.get('input')]
    check_set(tuple(case['combo']), tuple(case['prios']), case['rev'], [case['input']] if 'input' in case else [], res)
    return [v for v in res['viol'] if v['kind'] != 'construction' or 'input' not in case]
