"""C08 -- rejections are UnexpectedInput errors at the first offending position (DESIGN.md section 4, C08)."""
from lark.exceptions import GrammarError, ParseError, UnexpectedInput, UnexpectedToken, UnexpectedCharacters, UnexpectedEOF

from .. import families, gram, refsem, reflalr, reflex, larkio, util, obs
from ..gram import Term
from ..famrun import FamRun

ID = 'C08'
LEVEL = 'exploration'
RULE = ('every productive grammar of the BNF/EBNF families (single-character named terminals, with and without %ignore " ") x '
        '6 parser/lexer pairs x every *rejected* input over {x, y, unlexable q, blank}: the exception must be an '
        'UnexpectedInput subclass (CYK: ParseError) raised at the first token/character after the longest viable prefix '
        '(prefix-viability fix-point over the CFG; reference LALR automaton for grammars with conflicts), UnexpectedEOF / '
        '$END with the last token\'s coordinates when the whole input is viable, and the continuation sets must hold in the '
        'stated directions; plus a bracket-and-indentation grammar behind the Indenter post-lexer (every text of <= 3 lines): UnexpectedInput at the first non-viable token of the reference token stream, or the post-lexer\'s documented DedentError; and a keyword/identifier grammar (multi-character terminals, keywords folded into the identifier regexp) x 3 engines x every input over 6 characters: class, position and continuation sets against the reference lexer (restricted by the reference automaton for lexer=contextual) + viability fix-point. Non-trivial = rejected input with at least one token before the error; distinct by construction')
ASSUMPTIONS = ['prefix viability computed by refsem.Viable (productive grammars only; others skipped)',
               'terminals of the family are single characters, so tokens = characters and tokenisation is unique',
               'LALR: viability is relative to the shift-preferring reference automaton (reflalr) when the grammar has conflicts']
DEADLINE = {'quick': 900, 'thorough': 3 * 3600}

WS = Term('WS', (('str', ' ', ''),))
ENGINES = (('lalr', 'basic'), ('lalr', 'contextual'), ('earley', 'basic'), ('earley', 'dynamic'),
           ('earley', 'dynamic_complete'), ('cyk', 'basic'))


def box(name):
    B = families.BNF
    if name == 'x1':
        return dict(fam=B(2, 'x', 2, 2, render='tok'), alpha='xq')
    if name == 'x2':
        return dict(fam=B(2, 'xy', 2, 2, render='tok'), alpha='xyq')
    if name == 'x2i':
        return dict(fam=B(2, 'xy', 2, 2, render='tok', ignore=('WS',), extra_terms=(WS,)), alpha='xy q')
    if name == 'x1i':
        return dict(fam=B(2, 'x', 2, 2, render='tok', ignore=('WS',), extra_terms=(WS,)), alpha='x q')
    if name == 'x2u':       # the second terminal is underscore-named (filtered): it must still show up in expected / accepts
        return dict(fam=B(2, 'xy', 2, 2, render={'x': (('tok', 'X'), [Term('X', (('str', 'x', ''),))]),
                                                  'y': (('tok', '_Y'), [Term('_Y', (('str', 'y', ''),))])}), alpha='xyq', ch2tok={'x': 'X', 'y': '_Y'})
    if name == 'x2ms':      # two start symbols: Lark(start=['start', 'a']), each parse names its start symbol
        return dict(fam=B(2, 'xy', 2, 2, render='tok'), alpha='xyq', starts=('start', 'a'))
    if name == 'e1':
        return dict(fam=families.EBNF(1), alpha='xyq')
    if name == 'e2':
        return dict(fam=families.EBNF(2), alpha='xyq')
    if name == 'k3':
        return dict(fam=B(3, 'xy', (2, 1, 1), 2, render='tok'), alpha='xyq')
    raise KeyError(name)


TIERS = {'quick': [('x1', 1, 4), ('x1i', 4, 4), ('x2', 32, 4), ('x2i', 64, 4), ('e1', 1, 3), ('e2', 32, 3), ('x2u', 64, 4), ('x2ms', 64, 4)],
         'thorough': [('x1', 1, 5), ('x1i', 1, 5), ('x2', 2, 4), ('x2i', 8, 4), ('e1', 1, 4), ('e2', 2, 3), ('k3', 8, 4), ('x2u', 4, 4), ('x2ms', 4, 4)]}

CH2TOK = {'x': 'X', 'y': 'Y'}
TNAMES = ('X', 'Y', '_Y')


def termset(v):
    return {str(x) for x in (v or ()) if str(x) in TNAMES}


def check(g, gi, boxname, b, inputs, res, only=None):
    if b.get('starts'):
        for st in b['starts']:
            if only and only.get('start') != st:
                continue
            g2 = gram.Grammar(list(g.rules.values()), list(g.terms.values()), g.ignore, start=st)
            check1(g2, gi, boxname, b, inputs, res, only, starts=list(b['starts']), start=st)
        return
    check1(g, gi, boxname, b, inputs, res, only)


def check1(g, gi, boxname, b, inputs, res, only=None, starts=None, start=None):
    ch2tok = b.get('ch2tok', CH2TOK)
    if refsem.productive(g) != set(g.rules):
        res['counters']['skipped: unproductive non-terminal (viability undefined)'] += 1
        return
    gtext = g.text()
    bnf = all(it[0] in ('ref', 'tok') for r in g.rules.values() for s, _ in r.alts for it in s)
    ref = sim_conf = None
    if bnf:
        ref = reflalr.RefLALR(g)
        sim_conf = bool(ref.sr_conflicts() or ref.rr_resolved_by_priority())
    lenient_lalr = False
    if not bnf:
        # EBNF body: no reference automaton.  lark's own strict mode tells whether the LALR table has a shift/reduce
        # conflict; if so the error may legitimately come earlier than CFG viability says (never later).
        rs = larkio.build(gtext, parser='lalr', strict=True)
        lenient_lalr = rs[0] != 'ok'
    vcache = {}

    def viable(toks):
        if toks not in vcache:
            vcache[toks] = refsem.viable_tokens(g, [('tok', t) for t in toks])
        return vcache[toks]

    def sentence(toks):
        return refsem.accepts(g, refsem.Edges.tokens(g, [('tok', t) for t in toks]))

    def next_terms(toks):
        return {t for t in TNAMES if ('tok', t) in g_terms and viable(toks + (t,))}
    g_terms = set(gram.term_keys(g))
    parsers = {}
    for parser, lexer in ENGINES:
        if only and (only['parser'], only['lexer']) != (parser, lexer):
            continue
        r = larkio.build(gtext, timeout=1.5 if parser == 'cyk' else 10, parser=parser, lexer=lexer, **({'start': starts} if starts else {}))
        res['evals'] += 1
        if r[0] == 'ok':
            parsers[parser, lexer] = r[1]
        elif parser == 'earley' and not (r[0] == 'exc' and isinstance(r[1], GrammarError) and refsem.construction_may_fail(g)):
            res['viol'].append({'kind': 'construction', 'cause': 'construction', 'case': {'box': boxname, 'gidx': gi, 'grammar': gtext,
                                'parser': parser, 'lexer': lexer}, 'expected': 'constructed', 'observed': repr(r[1])[:200]})
        else:
            res['counters']['unsupported: %s refuses the grammar' % parser] += 1
    for w in inputs:
        # reference analysis of the input
        toks, offs = [], []
        qpos = None
        for i, c in enumerate(w):
            if c == 'q':
                qpos = i
                break
            if c in ch2tok and ('tok', ch2tok[c]) in g_terms:
                toks.append(ch2tok[c])
                offs.append(i)
            elif c == ' ' and g.ignore:
                continue
            else:
                qpos = i        # a character no terminal of this grammar matches
                break
        toks = tuple(toks)
        kbad = next((k for k in range(len(toks)) if not viable(toks[:k + 1])), None)
        if kbad is None and qpos is None and sentence(toks):
            continue        # accepted input: not this property's business
        for (parser, lexer), p in parsers.items():
            case = {'box': boxname, 'gidx': gi, 'grammar': gtext, 'parser': parser, 'lexer': lexer, 'input': w, 'start': start}

            def bad(kind, cause, exp, got):
                res['viol'].append({'kind': kind, 'cause': cause, 'case': case, 'expected': exp, 'observed': got})
            pr = larkio.parse(p, w, **({'start': start} if start else {}))
            res['evals'] += 1
            if pr[0] == 'hang':
                bad('hang', 'hang', 'an UnexpectedInput error', 'watchdog')
                continue
            if pr[0] == 'ok':
                if parser == 'lalr' or parser == 'cyk':
                    continue        # acceptance is judged by C01/C02 (LALR may legitimately differ from the CFG)
                bad('accepted-non-sentence', 'language', 'rejection', 'accepted')
                continue
            e = pr[1]
            if parser == 'cyk':
                if not (isinstance(e, ParseError) or isinstance(e, UnexpectedCharacters)):
                    bad('error-class', 'error-class', 'ParseError / UnexpectedCharacters', repr(e)[:200])
                continue
            if not isinstance(e, UnexpectedInput):
                bad('error-class', 'error-class', 'a subclass of UnexpectedInput', repr(e)[:200])
                continue
            # --- position of the first offending token / character
            kb = kbad
            if parser == 'lalr' and sim_conf:
                sim = ref.sim()
                kb = next((k for k, t in enumerate(toks) if sim.feed(('tok', t)) != 'shift'), None)
                if kb is None and qpos is None and sim.feed(reflalr.END) == 'accept':
                    continue
                res['counters']['lalr: position judged against the shift-preferring reference automaton'] += 1
            if kb is not None:
                res['nontrivial'] += 1 if kb > 0 else 0
                m = offs[kb]
                prefix = toks[:kb]
                if lexer in ('dynamic', 'dynamic_complete'):
                    exp_cls, exp_tok = 'UnexpectedCharacters', None
                else:
                    exp_cls, exp_tok = 'UnexpectedToken', toks[kb]
            elif qpos is not None:
                res['nontrivial'] += 1 if toks else 0
                m, prefix, exp_cls, exp_tok = qpos, toks, 'UnexpectedCharacters', None
            else:
                res['nontrivial'] += 1 if toks else 0
                m, prefix = None, toks
                exp_cls, exp_tok = ('UnexpectedToken', '$END') if parser == 'lalr' else ('UnexpectedEOF', None)
            cls = type(e).__name__
            summary = {'class': cls, 'pos': getattr(e, 'pos_in_stream', None), 'line': getattr(e, 'line', None),
                       'column': getattr(e, 'column', None), 'token': str(getattr(getattr(e, 'token', None), 'type', None))}
            want = {'class': exp_cls}
            if m is not None:
                l, c = reflex.linecol(w, m)
                want.update(pos=m, line=l, column=c)
            if exp_tok == '$END':
                if toks:
                    l, c = reflex.linecol(w, offs[-1])
                    want.update(pos=offs[-1], line=l, column=c, token='$END')
                else:
                    want.update(token='$END')
            elif exp_tok:
                want['token'] = exp_tok
            if any(summary.get(k) != v for k, v in want.items()):
                if parser == 'lalr' and lenient_lalr and cls == 'UnexpectedToken' and summary['pos'] is not None and (
                        m is None or summary['pos'] <= m) and summary['pos'] in offs:
                    res['counters']['lalr + conflict in an EBNF grammar: earlier error position not judged'] += 1
                else:
                    bad('position', 'position', want, summary)
                continue
            # --- continuation sets (grammar terminals only; end markers judged apart)
            nt = next_terms(prefix) if not (parser == 'lalr' and sim_conf) else None
            if lexer in ('dynamic', 'dynamic_complete'):
                got = termset(getattr(e, 'allowed', None) if cls == 'UnexpectedCharacters' else getattr(e, 'expected', None))
                if got != nt:
                    bad('continuation-set', 'expected-dynamic', sorted(nt), sorted(got))
            elif parser == 'earley':
                got = termset(getattr(e, 'allowed', None) if cls == 'UnexpectedCharacters' else e.expected)
                if not nt <= got:
                    bad('continuation-set', 'expected-earley-basic', 'superset of %s' % sorted(nt), sorted(got))
            elif cls == 'UnexpectedToken':
                acc = util.timed(lambda: e.accepts, 5)
                if acc[0] != 'ok' or acc[1] is None:
                    bad('accepts-unavailable', 'accepts', 'a set', repr(acc)[:100])
                    continue
                accs, exps = termset(acc[1]), termset(e.expected)
                if not accs <= exps:
                    bad('continuation-set', 'accepts-subset-expected', 'accepts subset of expected=%s' % sorted(exps), sorted(accs))
                for t in accs:
                    if not viable(prefix + (t,)):
                        bad('continuation-set', 'accepts-viable', '%s cannot legally follow %s' % (t, list(prefix)), sorted(accs))
                if '$END' in acc[1] and not sentence(prefix):
                    bad('continuation-set', 'accepts-viable', '$END not acceptable: %s is not a sentence' % list(prefix), sorted(map(str, acc[1])))
            if len(res['samples']) < 2 and len(prefix) >= 2:
                res['samples'].append({'grammar': gtext, 'engine': parser + '/' + lexer, 'input': w, 'error': summary,
                                       'next_terminals_reference': sorted(nt) if nt is not None else None})


# --------------------------------------------------------------------------------------------------- post-lexer (Indenter) box

IND_G = ('start: _NL* stmt*\nstmt: atom+ _NL [_INDENT stmt+ _DEDENT]\natom: NAME | LPAR atom* RPAR\nNAME: "a"\nLPAR: "("\nRPAR: ")"\n'
         '_NL: /(\\r?\\n[\\t ]*)+/\n%ignore " "\n%declare _INDENT _DEDENT\n')
IND_INDENTS = ('', ' ', '  ')
IND_BODIES = ('a', '(a', 'a)', ')', '(', 'a a', '')
IND_ENGINES = (('lalr', 'contextual'), ('lalr', 'basic'), ('earley', 'basic'))


def ind_grammar():
    from ..gram import Rule, Grammar
    T = lambda n: ('tok', n)
    R = lambda n: ('ref', n)
    rules = [Rule('start', '', None, ((( ('star', T('_NL')), ('star', R('stmt'))), None),)),
             Rule('stmt', '', None, (((('plus', R('atom')), T('_NL'), ('opt', ('group', ((T('_INDENT'), ('plus', R('stmt')), T('_DEDENT')),)))), None),)),
             Rule('atom', '', None, (((T('NAME'),), None), ((T('LPAR'), ('star', R('atom')), T('RPAR')), None)))]
    terms = [Term(n, (('str', n, ''),)) for n in ('NAME', 'LPAR', 'RPAR', '_NL', '_INDENT', '_DEDENT')]
    return Grammar(rules, terms)


def ind_reference_stream(text):
    """Token-level reading of the documented Indenter on `text`: [(type, start_pos)...] followed by ('DedentError',) where
    the post-lexer gives up.  A newline token is passed on (outside brackets) *before* its indentation is judged."""
    import re
    out, stack, depth, pos = [], [0], 0, 0
    nl = re.compile(r'(\r?\n[\t ]*)+')
    while pos < len(text):
        c = text[pos]
        if c == ' ':
            pos += 1
            continue
        if c == '\n':
            m = nl.match(text, pos)
            if depth == 0:
                out.append(('_NL', pos))
                col = len(m.group(0).rsplit('\n', 1)[1])
                if col > stack[-1]:
                    stack.append(col)
                    out.append(('_INDENT', pos))
                else:
                    while col < stack[-1]:
                        stack.pop()
                        out.append(('_DEDENT', pos))
                    if col != stack[-1]:
                        out.append(('DedentError',))
                        return out
            pos = m.end()
            continue
        out.append(({'a': 'NAME', '(': 'LPAR', ')': 'RPAR'}[c], pos))
        depth += (c == '(') - (c == ')')
        pos += 1
    while len(stack) > 1:
        stack.pop()
        out.append(('_DEDENT', None))     # fabricated at the end of the stream: which token lends its position is not stated
    return out


def ind_texts(nlines):
    import itertools
    lines = [i + b for i in IND_INDENTS for b in IND_BODIES]
    for n in range(1, nlines + 1):
        for ls in itertools.product(lines, repeat=n):
            for fin in ('', '\n'):
                yield '\n'.join(ls) + fin


class _Ind:
    g = None
    parsers = None

    @classmethod
    def setup(cls):
        if cls.g is None:
            from lark import Lark
            from lark.indenter import Indenter

            class I(Indenter):
                NL_type = '_NL'
                OPEN_PAREN_types = ['LPAR']
                CLOSE_PAREN_types = ['RPAR']
                INDENT_type = '_INDENT'
                DEDENT_type = '_DEDENT'
                tab_len = 8
            cls.g = ind_grammar()
            cls.parsers = {(pa, lx): Lark(IND_G, parser=pa, lexer=lx, postlex=I()) for pa, lx in IND_ENGINES}


def work_indent(item, only=None):
    """Rejections through a stateful post-lexer: the error must still be an UnexpectedInput at the first token that cannot
    extend the viable token prefix -- or the post-lexer's own documented DedentError where the reference stream has it."""
    import itertools
    from lark.indenter import DedentError
    from ..famrun import new_res
    res = new_res()
    _, nlines, lo, hi = item
    _Ind.setup()
    g = _Ind.g
    texts = [only['input']] if only else itertools.islice(ind_texts(nlines), lo, hi)
    for w in texts:
        stream = ind_reference_stream(w)
        # the longest viable prefix of the reference stream
        toks, want = [], None
        for ev in stream:
            if ev[0] == 'DedentError':
                want = ('DedentError', None, None)
                break
            if not refsem.viable_tokens(g, [('tok', t) for t, _ in toks] + [('tok', ev[0])]):
                want = ('UnexpectedToken', ev[0], ev[1])
                break
            toks.append(ev)
        if want is None:
            E = refsem.Edges.tokens(g, [('tok', t) for t, _ in toks])
            want = ('accept', None, None) if refsem.Chart(g, E).accepts() else ('UnexpectedToken', '$END', None)
        for (parser, lexer), p in _Ind.parsers.items():
            if only and (only['parser'], only['lexer']) != (parser, lexer):
                continue
            pr = larkio.parse(p, w)
            res['evals'] += 1
            case = {'box': 'indenter', 'item': list(item), 'grammar': IND_G, 'parser': parser, 'lexer': lexer, 'input': w}

            def bad(kind, cause, exp, got):
                res['viol'].append({'kind': kind, 'cause': cause, 'case': case, 'expected': exp, 'observed': got})
            if pr[0] == 'hang':
                bad('hang', 'hang', 'terminates', 'watchdog')
                continue
            if pr[0] == 'ok':
                if want[0] != 'accept':
                    bad('accepted-non-sentence', 'language', list(want), 'a tree')
                continue
            e = pr[1]
            if want[0] == 'accept':
                bad('rejected-sentence', 'language', 'a tree', repr(e)[:200])
                continue
            res['nontrivial'] += 1 if toks else 0
            cls = type(e).__name__
            if want[0] == 'DedentError':
                if not isinstance(e, DedentError):
                    bad('error-class', 'error-class', 'DedentError (the documented post-lexer error)', repr(e)[:200])
                continue
            if not isinstance(e, UnexpectedInput):
                bad('error-class', 'error-class', 'UnexpectedInput subclass', '%s: %s' % (cls, str(e)[:150]))
                continue
            if want[1] == '$END':
                ok = cls == 'UnexpectedEOF' or (cls == 'UnexpectedToken' and e.token.type == '$END')
                if not ok:
                    bad('position', 'position', 'UnexpectedEOF / unexpected $END', obs.exc(e))
                continue
            tok = getattr(e, 'token', None)
            got = (cls, getattr(tok, 'type', None), getattr(tok, 'start_pos', None) if want[2] is not None else None)
            if got != want:
                bad('position', 'position', list(want), list(got))
            elif len(res['samples']) < 2 and len(toks) >= 3:
                res['samples'].append({'grammar': 'indenter box', 'engine': parser + '/' + lexer, 'input': w, 'error': list(got)})
    res['counters'] = dict(res['counters'])
    return res


# --------------------------------------------------------------------------------------------------- keyword / identifier box

# EQ may swallow a following line break: an input that ends there is a proper prefix whose last token spans two lines
KW_G = 'start: IF NAME | NAME EQ NAME | IF NAME EQ NAME THEN NAME\nIF: "if"\nTHEN: "fi"\nEQ: /=\\n?/\nNAME: /[a-z]+/\nWS: " "\n%ignore WS\n'
KW_ALPHA = 'if a=9\n'
KW_ENGINES = (('lalr', 'contextual'), ('lalr', 'basic'), ('earley', 'basic'))
KW_TNAMES = ('IF', 'THEN', 'EQ', 'NAME')


class _Kw:
    g = ref = parsers = tdefs = None

    @classmethod
    def setup(cls):
        if cls.g is None:
            from lark import Lark
            from ..gram import Rule, Grammar
            from ..reflex import TDef, INF
            T = lambda n: ('tok', n)
            rules = [Rule('start', '', None, (((T('IF'), T('NAME')), None), ((T('NAME'), T('EQ'), T('NAME')), None),
                                              ((T('IF'), T('NAME'), T('EQ'), T('NAME'), T('THEN'), T('NAME')), None)))]
            cls.g = Grammar(rules, [Term(n, (('str', n, ''),)) for n in KW_TNAMES])
            cls.ref = reflalr.RefLALR(cls.g)
            cls.tdefs = [TDef('IF', 'str', 'if'), TDef('THEN', 'str', 'fi'), TDef('EQ', 're', '=\\n?', '', 0, 2), TDef('NAME', 're', '[a-z]+', '', 0, INF), TDef('WS', 'str', ' ')]
            cls.parsers = {(pa, lx): Lark(KW_G, parser=pa, lexer=lx) for pa, lx in KW_ENGINES}


class _Prefix(list):
    last_pos = None


def kw_expect(w, lexer):
    """-> (want, prefix) ; want = ('accept',) | ('UnexpectedToken', type, pos) | ('UnexpectedCharacters', pos) | ('end',)
    Tokens come from the reference lexer (documented order + keyword exception; for the contextual lexer restricted to the
    terminals the reference automaton accepts next), viability from the CFG fix-point."""
    g, ref, tdefs = _Kw.g, _Kw.ref, _Kw.tdefs

    def allowed(toks_so_far):
        s = ref.sim()
        for typ, _, _ in toks_so_far:
            if s.feed(('tok', typ)) != 'shift':
                return set()
        return {k[1] for k in s.terminals() if k != reflalr.END and k[0] == 'tok'}
    lx = reflex.lex_basic(tdefs, ('WS',), w, allowed=allowed if lexer == 'contextual' else None)
    toks = lx[1] if lx[0] == 'ok' else lx[2]
    prefix = _Prefix()
    for typ, val, pos in toks:
        if not refsem.viable_tokens(g, [('tok', t) for t in prefix] + [('tok', typ)]):
            return ('UnexpectedToken', typ, pos), prefix
        prefix.append(typ)
        prefix.last_pos = pos
    if lx[0] != 'ok':
        q = lx[1]
        if lexer == 'contextual':
            # no acceptable terminal matches at q: the root lexer is asked, and a terminal defined but not acceptable here is
            # reported as an unexpected token
            root = reflex.lex_basic(tdefs, ('WS',), w[q:])
            rt = root[1] if root[0] == 'ok' else root[2]
            if rt and rt[0][2] == 0:
                return ('UnexpectedToken', rt[0][0], q), prefix
        return ('UnexpectedCharacters', q), prefix
    E = refsem.Edges.tokens(g, [('tok', t) for t in prefix])
    return (('accept',) if refsem.Chart(g, E).accepts() else ('end',)), prefix


def work_kw(item, only=None):
    from ..famrun import new_res
    res = new_res()
    _, L, lo, hi = item
    _Kw.setup()
    g = _Kw.g
    import itertools
    texts = [only['input']] if only else itertools.islice(util.strings(KW_ALPHA, L), lo, hi)
    for w in texts:
        for (parser, lexer), p in _Kw.parsers.items():
            if only and (only['parser'], only['lexer']) != (parser, lexer):
                continue
            want, prefix = kw_expect(w, lexer)
            nxt = {t for t in KW_TNAMES if refsem.viable_tokens(g, [('tok', x) for x in prefix] + [('tok', t)])}
            pr = larkio.parse(p, w)
            res['evals'] += 1
            case = {'box': 'keywords', 'item': list(item), 'grammar': KW_G, 'parser': parser, 'lexer': lexer, 'input': w}

            def bad(kind, cause, exp, got):
                res['viol'].append({'kind': kind, 'cause': cause, 'case': case, 'expected': exp, 'observed': got})
            if pr[0] == 'hang':
                bad('hang', 'hang', 'terminates', 'watchdog')
                continue
            if pr[0] == 'ok':
                if want[0] != 'accept':
                    bad('accepted-non-sentence', 'language', list(want), 'a tree')
                continue
            e = pr[1]
            if want[0] == 'accept':
                bad('rejected-sentence', 'language', 'a tree', repr(e)[:200])
                continue
            if prefix:
                res['nontrivial'] += 1
            cls = type(e).__name__
            if not isinstance(e, UnexpectedInput):
                bad('error-class', 'error-class', 'UnexpectedInput subclass', '%s: %s' % (cls, str(e)[:150]))
                continue
            tok = getattr(e, 'token', None)
            if want[0] == 'end':
                if not (cls == 'UnexpectedEOF' or (cls == 'UnexpectedToken' and tok.type == '$END')):
                    bad('position', 'position', 'UnexpectedEOF / unexpected $END', obs.exc(e))
                    continue
                if cls == 'UnexpectedToken' and prefix.last_pos is not None:
                    # "an unexpected $END carrying the coordinates of the last token"
                    wantc = reflex.linecol(w, prefix.last_pos) + (prefix.last_pos,)
                    if (tok.line, tok.column, tok.start_pos) != wantc:
                        bad('end-coordinates', 'end-coordinates', {'line,column,start_pos of the last token': list(wantc)}, [tok.line, tok.column, tok.start_pos])
                        continue
            elif want[0] == 'UnexpectedToken':
                if (cls, getattr(tok, 'type', None), getattr(tok, 'start_pos', None)) != want:
                    bad('position', 'position', list(want), [cls, getattr(tok, 'type', None), getattr(tok, 'start_pos', None), getattr(e, 'pos_in_stream', None)])
                    continue
            else:
                if (cls, getattr(e, 'pos_in_stream', None)) != want:
                    bad('position', 'position', list(want), [cls, getattr(e, 'pos_in_stream', None)])
                    continue
            # continuation sets, in the stated directions
            names = lambda v: {str(x) for x in (v or ()) if str(x) in KW_TNAMES}
            if parser == 'earley':
                got = names(getattr(e, 'allowed', None) if cls == 'UnexpectedCharacters' else getattr(e, 'expected', None))
                if cls != 'UnexpectedEOF' and not nxt <= got:
                    bad('continuation-set', 'expected-earley-basic', 'superset of %s' % sorted(nxt), sorted(got))
            elif cls == 'UnexpectedCharacters' and lexer == 'contextual':
                # the contextual lexer works with the terminals the parser's state can take: `allowed` names those (the row
                # of the reference automaton -- lark's table equals it, C02), in particular every legal next terminal
                sim = _Kw.ref.sim()
                for t in prefix:
                    sim.feed(('tok', t))
                row = {k[1] for k in sim.terminals() if k != reflalr.END and k[0] == 'tok'}
                got = names(e.allowed)
                if not (nxt <= got <= row):
                    bad('continuation-set', 'allowed-contextual', 'legal next %s <= allowed <= terminals of the state %s' % (sorted(nxt), sorted(row)), sorted(got))
            elif cls == 'UnexpectedToken':
                acc = util.timed(lambda: e.accepts, 5)
                if acc[0] != 'ok' or acc[1] is None:
                    bad('accepts-unavailable', 'accepts', 'a set', repr(acc)[:100])
                    continue
                accs, exps = names(acc[1]), names(e.expected)
                if not accs <= exps:
                    bad('continuation-set', 'accepts-subset-expected', 'accepts subset of expected=%s' % sorted(exps), sorted(accs))
                if not accs <= nxt:
                    bad('continuation-set', 'accepts-viable', 'accepts within the legal next terminals %s' % sorted(nxt), sorted(accs))
            if len(res['samples']) < 1 and len(prefix) >= 2:
                res['samples'].append({'grammar': 'keyword box', 'engine': parser + '/' + lexer, 'input': w, 'error': obs.exc(e)})
    res['counters'] = dict(res['counters'])
    return res


KW_TIERS = {'quick': 5, 'thorough': 6}
KW_CHUNK = 800

IND_TIERS = {'quick': 3, 'thorough': 4}
IND_CHUNK = 1500

_run = FamRun(box, TIERS, check, chunk=48)


def plan(tier, seed):
    n = IND_TIERS[tier]
    total = sum(2 * (len(IND_INDENTS) * len(IND_BODIES)) ** k for k in range(1, n + 1))
    kl = KW_TIERS[tier]
    ktotal = sum(len(KW_ALPHA) ** k for k in range(kl + 1))
    return [('fam',) + tuple(it) for it in _run.plan(tier, seed)] + [('indent', n, lo, min(total, lo + IND_CHUNK)) for lo in range(0, total, IND_CHUNK)] + \
        [('kw', kl, lo, min(ktotal, lo + KW_CHUNK)) for lo in range(0, ktotal, KW_CHUNK)]


def bounds(tier, seed):
    return {'families': _run.bounds(tier, seed),
            'indenter_box': {'grammar': IND_G, 'lines': '<= %d, each one of %d indentations x %d bodies, with and without a final newline' % (IND_TIERS[tier], len(IND_INDENTS), len(IND_BODIES)),
                             'engines': IND_ENGINES},
            'keyword_box': {'grammar': KW_G, 'input_alphabet': KW_ALPHA, 'max_input_len': KW_TIERS[tier], 'engines': KW_ENGINES}}


def work(item):
    if item[0] == 'indent':
        return work_indent(item)
    if item[0] == 'kw':
        return work_kw(item)
    return _run.work(item[1:])


def replay(case):
    if case.get('box') == 'indenter':
        return work_indent(tuple(case['item']), only=case)['viol']
    if case.get('box') == 'keywords':
        return work_kw(tuple(case['item']), only=case)['viol']
    return _run.replay(case)
