"""C15 -- input representation does not matter: str, bytes and TextSlice agree (DESIGN.md section 4, C15)."""
from lark import Tree
from lark.utils import TextSlice
from lark.exceptions import UnexpectedInput

from .. import families, reflex, larkio, util, obs
from ..famrun import new_res

ID = 'C15'
LEVEL = 'exploration'
RULE = ('newline-bearing grammars (5 spellings kept/ignored x 3 shapes, propagate_positions on) x parser/lexer pairs x every '
        'ASCII input over {a, b, newline, blank} up to the bound x representation: str; bytes (use_bytes); every window '
        'TextSlice(prefix + text + suffix) with prefix, suffix over {a, newline} up to length 2 (basic/contextual/cyk). '
        'bytes must equal str; a window must equal the str result shifted by the window start with line/column recomputed '
        'absolutely from the buffer; on rejection same error class and shifted position. Non-trivial = window with a non-empty '
        'prefix, or bytes input containing a newline; distinct by construction')
ASSUMPTIONS = ['relational oracle anchored absolutely: line/column of a window result are recomputed from the buffer with count(newline)',
               'newline spellings restricted to those the textual newline heuristic recognises (the others are C06\'s known finding)']
DEADLINE = {'quick': 900, 'thorough': 3 * 3600}

SPELL = ['"\\n"', '/\\n+/', '/\\s+/', '/[^ab]+/', '/(.|\\n)/']
from .c06 import SHAPE_BODIES, SHAPE_BODIES_IGN, tok_grammar     # noqa: E402
ENG_WIN = [('lalr', 'basic'), ('lalr', 'contextual'), ('earley', 'basic'), ('cyk', 'basic')]
ENG_DYN = [('earley', 'dynamic'), ('earley', 'dynamic_complete')]
AFFIX = list(util.strings('a\n', 2))


def plan(tier, seed):
    L = 4 if tier == 'quick' else 5
    return [(si, ni, ign, L) for si in range(3) for ni in range(len(SPELL)) for ign in (False, True)]


def bounds(tier, seed):
    return {'spellings': SPELL, 'shapes': SHAPE_BODIES, 'window_engines': ENG_WIN, 'bytes_only_engines': ENG_DYN,
            'input_alphabet': 'ab\\n ', 'max_input_len': 4 if tier == 'quick' else 5, 'window_prefixes_suffixes': AFFIX}


def observe(p, text, pos=True):
    pr = larkio.parse(p, text)
    if pr[0] == 'ok':
        return ('ok', obs.canon(pr[1], pos=True, meta=True))
    if pr[0] == 'hang':
        return ('hang',)
    return ('exc', obs.exc(pr[1]))


def reloc_tok(t, a, buf, family='basic'):
    _, typ, val, sp, ep, *_ = t
    l, c = reflex.linecol(buf, sp + a)
    el, ec = reflex.linecol(buf, ep + a) if family == 'basic' else reflex.end_linecol_dynamic(buf, ep + a)
    return ('tok', typ, val, sp + a, ep + a, l, c, el, ec)


def reloc(o, a, buf):
    """Expected observation for a window starting at `a` of buffer `buf`, from the observation on the substring."""
    if o is None:
        return None
    if o[0] == 'tok':
        return reloc_tok(o, a, buf)
    if o[0] == 'tree':
        m = o[3]
        if m is not None and m != ('empty',):
            out = []
            for i in range(0, 12, 3):
                # (line, column, start_pos) (end_line, end_column, end_pos) (container_...) x2
                pos = m[i + 2]
                if pos is None:
                    out += [None, None, None]
                else:
                    l, c = reflex.linecol(buf, pos + a)
                    out += [l, c, pos + a]
            m = tuple(out)
        return ('tree', o[1], tuple(reloc(c, a, buf) for c in o[2]), m)
    return o


def reloc_exc(e, a, buf, ntokens):
    d = dict(e)
    if d.get('pos_in_stream') not in (None, -1):
        pos = d['pos_in_stream'] + a
        d['pos_in_stream'] = pos
        d['line'], d['column'] = reflex.linecol(buf, pos)
    if 'token' in d and d['token'][2] is not None:
        typ, val, sp, l, c = d['token']
        l, c = reflex.linecol(buf, sp + a)
        d['token'] = (typ, val, sp + a, l, c)
    return tuple(sorted(d.items()))


def decode(o):
    return o


def check_grammar(si, ni, ignored, L, res, only=None):
    spell = SPELL[ni]
    gtext = tok_grammar(si, spell, ignored)
    inputs = list(util.strings('ab\n ', L))
    for parser, lexer in ENG_WIN + ENG_DYN:
        if only and (only['parser'], only['lexer']) != (parser, lexer):
            continue
        cfg = {'shape': si, 'spelling': spell, 'ignored': ignored, 'grammar': gtext, 'parser': parser, 'lexer': lexer,
               'item': [si, ni, ignored, L]}
        rs = larkio.build(gtext, parser=parser, lexer=lexer, propagate_positions=True, timeout=5)
        rb = larkio.build(gtext, parser=parser, lexer=lexer, propagate_positions=True, use_bytes=True, timeout=5)
        res['evals'] += 2
        if rs[0] != 'ok':
            res['counters']['unsupported: construction refused'] += 1
            continue
        ps = rs[1]
        for w in inputs:
            if only and only['input'] != w:
                continue
            base = observe(ps, w)
            res['evals'] += 1

            def bad(kind, cause, exp, got, **kw):
                res['viol'].append({'kind': kind, 'cause': cause, 'case': dict(cfg, input=w, **kw), 'expected': exp, 'observed': got})
            if base[0] == 'hang':
                continue
            # bytes
            if rb[0] == 'ok':
                ob = observe(rb[1], w.encode('ascii'))
                res['evals'] += 1
                if '\n' in w:
                    res['nontrivial'] += 1
                if ob != base:
                    bad('bytes-differs', 'bytes', base, ob, representation='bytes')
            # windows
            if (parser, lexer) in ENG_DYN:
                continue
            ntok = 0
            for pre in AFFIX:
                for suf in AFFIX:
                    if not pre and not suf:
                        continue
                    if only and (only.get('prefix'), only.get('suffix')) != (pre, suf):
                        continue
                    buf = pre + w + suf
                    a = len(pre)
                    ow = observe(ps, TextSlice(buf, a, a + len(w)))
                    res['evals'] += 1
                    if pre:
                        res['nontrivial'] += 1
                    if base[0] == 'ok':
                        want = ('ok', reloc(base[1], a, buf))
                    else:
                        want = ('exc', reloc_exc(base[1], a, buf, ntok))
                    if ow != want:
                        empty = not w.strip(' \n') if ignored else not w
                        cause = 'window'
                        if want[0] == 'exc' and dict(want[1]).get('token', ('',))[0] == '$END' and _no_token(w, spell, ignored):
                            cause = 'empty-window-$END-at-origin'
                        bad('window-differs', cause, want, ow, representation='TextSlice', prefix=pre, suffix=suf)
                    elif pre and len(res['samples']) < 2 and base[0] == 'ok' and len(w) >= 2 and '\n' in pre:
                        res['samples'].append({'grammar': gtext, 'engine': parser + '/' + lexer, 'buffer': buf, 'window': [a, a + len(w)],
                                               'observation': ow[1]})


def _no_token(w, spell, ignored):
    """The window contains no token at all (empty or entirely ignored text) -- cause predicate of finding #14."""
    if not w:
        return True
    if not ignored:
        return False
    import re
    src = spell[1:-1]
    if spell.startswith('"'):
        src = re.escape(src.encode().decode('unicode_escape'))
    return re.fullmatch('(?:%s)+' % src, w) is not None


def work(item):
    res = new_res()
    check_grammar(*item, res)
    res['counters'] = dict(res['counters'])
    return res


def replay(case):
    res = new_res()
    check_grammar(*case['item'], res, only=case)
    return res['viol']
