"""C11 -- saved, cached and stand-alone parsers behave like the original (DESIGN.md section 4, C11)."""
import io
import re
import os
import itertools

from lark import Lark, Tree, Transformer
from lark.exceptions import UnexpectedInput, GrammarError
from lark.tools.standalone import gen_standalone

from .. import families, larkio, util, obs
from ..famrun import new_res

ID = 'C11'
LEVEL = 'exploration'
RULE = ('a menu of LALR feature grammars (keyword/identifier flag cube, imports from common, templates, rule and terminal '
        'priorities, 130 terminals, two start symbols, bytes mode, newline-bearing terminals) plus the LALR-acceptable members '
        'of the SHAPE family x lexer basic/contextual x option sets (keep_all_tokens, maybe_placeholders, propagate_positions) x '
        'four implementations -- built directly, save->load through a real pickle byte string, second construction with cache= '
        '(hit), module text from lark.tools.standalone executed in a fresh namespace -- x operations parse, interactive token '
        'feed with accepts() at every step, scan x every input up to the bound (accepted and rejected): the canonical observation '
        '(tree with token types/values/positions and full meta, or error class + position + expected sets) of each derived '
        'implementation must equal the direct one. Non-trivial = (grammar, options, implementation, operation, input) with a '
        'non-empty input; distinct by construction')
ASSUMPTIONS = ['relational oracle: the directly built instance is the reference (judged independently by C02/C03/C06/C07)',
               'stand-alone module executed with exec() in a fresh namespace of the same interpreter']
DEADLINE = {'quick': 900, 'thorough': 3 * 3600}


def kw_grammar(sflag, rflag):
    return 'start: (KW | NAME)+\nKW: "ab"%s\nNAME: /[a-z]+/%s\n%%ignore " "\n' % (sflag, rflag)


def big_grammar(n=130):
    vals = list(itertools.islice(util.strings('abcd', 4, 1), n))
    names = ['K%03d' % i for i in range(n)]
    return 'start: (%s)+\n%s\n' % (' | '.join(names), '\n'.join('%s: "%s"' % (k, v) for k, v in zip(names, vals)))


MENU = [
    # name, grammar, alphabet, extra options, start symbols
    ('import-common', 'start: (WORD | INT)+\n%import common.WORD\n%import common.INT\n%import common.WS\n%ignore WS\n', 'a1 ', {}, None),
    ('template', 'start: sep{X, ","} ";" sep{Y, ","}\nsep{x, s}: x (s x)*\nX: "x"\nY: "y"\n', 'xy,;', {}, None),
    ('priorities', 'start: (a | b)+\na.2: X Y?\nb: X\nX.2: /x/\nXX: "xx"\nY: "y"\n', 'xy', {}, None),
    ('term-prio', 'start: (A | B)+\nA.1: /a+/\nB: "aa" | "b"\n', 'ab', {}, None),
    ('two-starts', 'first: X second?\nsecond: Y+\nX: "x"\nY: "y"\n', 'xy', {}, ['first', 'second']),
    ('bytes', 'start: (A | N)+\nA: "a"\nN: /\\n+/\n', 'a\n', {'use_bytes': True}, None),
    ('newline', 'start: line+\nline: A+ _NL\nA: "a"\n_NL: /\\n+/\n%ignore " "\n', 'a\n ', {}, None),
    ('qrule-placeholder', 'start: a [B] c?\n?a: A | "(" start ")"\n!c: "c" "!"?\nA: "a"\nB: "b"\n', 'ab()c!', {}, None),
    ('big-130', big_grammar(130), 'abcd', {}, None),
    ('g-regex-flags', kw_grammar('', ''), 'abAB ', {'g_regex_flags': re.I}, None),       # re.IGNORECASE as a global flag
    # every terminal is %declare'd (tokens come from elsewhere): the serialised form contains no terminal definition at all
    ('declare-only', 'start: A B+\n%declare A B\n', 'a', {}, None),
    ('declare-postlex', 'start: (A | _X)+\nA: "a"\n%declare _X\n%ignore " "\n', 'a ', {}, None),
]
for _s in ('', 'i'):
    for _r in ('', 'i', 's', 'x', 'is'):
        MENU.append(('kw-%s-%s' % (_s or '0', _r or '0'), kw_grammar(_s, _r), 'abAB ', {}, None))

OPTSETS = [{}, {'maybe_placeholders': False}, {'keep_all_tokens': True}, {'propagate_positions': True},
           {'keep_all_tokens': True, 'maybe_placeholders': False, 'propagate_positions': True}]


def observe_parse(p, text, start):
    kw = {'start': start} if start else {}
    r = util.timed(lambda: p.parse(text, **kw))
    if r[0] == 'ok':
        return ('ok', obs.canon(r[1], pos=True, meta=True))
    return (r[0], obs.exc(r[1]) if r[0] == 'exc' else None)


def observe_interactive(p, text, start):
    kw = {'start': start} if start else {}

    def f():
        ip = p.parse_interactive(text, **kw)
        steps = []
        try:
            last = None
            for tok in ip.lexer_thread.lex(ip.parser_state):
                steps.append((tuple(sorted(ip.accepts())), obs.tok(tok)))
                ip.feed_token(tok)
                last = tok
            steps.append(tuple(sorted(ip.accepts())))
            res = ip.feed_eof(last)
            return ('ok', tuple(steps), obs.canon(res, pos=True, meta=True))
        except Exception as e:
            if any(c.__name__ == 'UnexpectedInput' for c in type(e).__mro__):
                return ('exc', tuple(steps), obs.exc(e))
            raise
    r = util.timed(f)
    return r[1] if r[0] == 'ok' else (r[0], repr(r[1])[:200])


def observe_scan(p, text, start):
    kw = {'start': start} if start else {}
    r = util.timed(lambda: [(tuple(m.range), obs.canon(m.value, pos=True, meta=True)) for m in p.scan(text, **kw)])
    if r[0] == 'ok':
        return ('ok', tuple(r[1]))
    return (r[0], type(r[1]).__name__ if r[0] == 'exc' else None)


OBSERVERS = {'parse': observe_parse, 'interactive': observe_interactive, 'scan': observe_scan}


class _Up(Transformer):
    def start(self, ch):
        return ('transformed', len(ch))


def derive(direct, gtext, opts, scratch, tag):
    """-> {'load': parser, 'cache': parser, 'standalone': parser} (or an exception object per entry)."""
    out = {}
    try:
        buf = io.BytesIO()
        direct.save(buf)
        data = buf.getvalue()
        out['load'] = Lark.load(io.BytesIO(data))
    except Exception as e:
        out['load'] = e
    try:
        # one cache path per (grammar, lexer), shared by all option sets: the file left by the previous option set must
        # be recognised as stale (different key), rebuilt, and then hit by the second construction
        path = os.path.join(scratch, 'c11_%s_%d.cache' % (tag.rsplit('_', 1)[0], os.getpid()))
        Lark(gtext, cache=path, **opts)
        out['cache'] = Lark(gtext, cache=path, **opts)
    except Exception as e:
        out['cache'] = e
    try:
        sio = io.StringIO()
        gen_standalone(direct, out=sio)
        ns = {'__name__': 'standalone_%s' % tag}
        exec(compile(sio.getvalue(), '<standalone %s>' % tag, 'exec'), ns)
        # no keyword arguments: the generated module embeds the options it was generated with
        out['standalone'] = ns['Lark_StandAlone']()
        # ... and every instance made from the module is such a parser, whatever other instances were made before it
        ns['Lark_StandAlone'](propagate_positions=not opts.get('propagate_positions', False), transformer=_Up())
        out['standalone-again'] = ns['Lark_StandAlone']()
    except Exception as e:
        out['standalone'] = e
    return out


def check_grammar(name, gtext, alpha, extra, starts, L, res, optsets=OPTSETS, only=None):
    scratch = os.environ.get('LMC_SCRATCH', '/dev/shm')
    inputs = list(util.strings(alpha, L))
    for lexer in ('basic', 'contextual'):
        for oi, o in enumerate(optsets):
            if only and (only['lexer'], only['optset']) != (lexer, oi):
                continue
            opts = dict(parser='lalr', lexer=lexer, **extra, **o)
            if starts:
                opts['start'] = starts
            r = larkio.build(gtext, timeout=60, **opts)
            res['evals'] += 1
            cfg = {'grammar_name': name, 'grammar': gtext if len(gtext) < 600 else gtext[:600] + '...', 'lexer': lexer, 'optset': oi, 'options': {k: v for k, v in opts.items()}}
            if r[0] != 'ok':
                res['counters']['unsupported: lalr refuses the grammar'] += 1
                continue
            direct = r[1]
            impls = derive(direct, gtext, opts, scratch, '%s_%s_%d' % (name, lexer, oi))
            for iname, impl in impls.items():
                if isinstance(impl, Exception):
                    res['viol'].append({'kind': 'derived-construction-failed:' + iname, 'cause': 'derive:' + iname, 'case': dict(cfg, implementation=iname),
                                        'expected': 'a parser', 'observed': repr(impl)[:300]})
            for w in inputs:
                if only and only.get('input') != w:
                    continue
                text = w.encode('ascii') if opts.get('use_bytes') else w
                for start in (starts or [None]):
                    for opname, fn in OBSERVERS.items():
                        base = fn(direct, text, start)
                        res['evals'] += 1
                        for iname, impl in impls.items():
                            if isinstance(impl, Exception):
                                continue
                            got = fn(impl, text, start)
                            res['evals'] += 1
                            if w:
                                res['nontrivial'] += 1
                            if got != base:
                                res['viol'].append({'kind': 'differs:%s:%s' % (iname, opname), 'cause': 'differs:' + iname,
                                                    'case': dict(cfg, implementation=iname, operation=opname, input=w, start=start),
                                                    'expected': base, 'observed': got})
                            elif len(res['samples']) < 2 and len(w) >= 3 and base[0] == 'ok' and iname == 'standalone':
                                res['samples'].append({'grammar': cfg['grammar'], 'options': {k: v for k, v in opts.items() if k != 'parser'}, 'implementation': iname,
                                                       'operation': opname, 'input': w, 'observation_equal_to_direct': True})


def shape_family():
    return families.SHAPE(1, spellings=(('a', ''), ('_a', ''), ('a', '?'), ('a', '!'), ('t', 'T')))


def plan(tier, seed):
    L = 3 if tier == 'quick' else 4
    items = [('menu', i, L if len(MENU[i][2]) > 3 else L + 1) for i in range(len(MENU))]
    fam = shape_family()
    k = 4 if tier == 'quick' else 1
    idxs = list(families.slice_indices(len(fam), k, seed))
    for lo in range(0, len(idxs), 12):
        items.append(('shape', k, seed % k, lo, min(len(idxs), lo + 12), 3))
    return items


def bounds(tier, seed):
    return {'menu': [m[0] for m in MENU], 'option_sets': OPTSETS, 'lexers': ['basic', 'contextual'],
            'implementations': ['direct', 'load', 'cache', 'standalone'], 'operations': list(OBSERVERS),
            'max_input_len': '3 (4 for alphabets of <= 3 letters)' if tier == 'quick' else '4 (5)',
            'shape_family': 'SHAPE(1) members acceptable to LALR, slice %s, option sets 0, 1 and 4, inputs <= 3' % ('1/4' if tier == 'quick' else 'complete')}


def work(item):
    res = new_res()
    if item[0] == 'menu':
        name, g, alpha, extra, starts = MENU[item[1]]
        check_grammar(name, g, alpha, extra, starts, item[2], res)
    else:
        _, k, r, lo, hi, L = item
        fam = shape_family()
        for gi in list(families.slice_indices(len(fam), k, r))[lo:hi]:
            g = fam.grammar(gi)
            if g is None:
                continue
            res['counters']['shape grammars'] += 1
            check_grammar('shape-%d' % gi, g.text(), 'xyzw', {}, None, L, res, optsets=[OPTSETS[0], OPTSETS[1], OPTSETS[4]])
    res['counters'] = dict(res['counters'])
    return res


def replay(case):
    res = new_res()
    name = case['grammar_name']
    if name.startswith('shape-'):
        g = shape_family().grammar(int(name[6:]))
        check_grammar(name, g.text(), 'xyzw', {}, None, 3, res, optsets=[OPTSETS[0], OPTSETS[1], OPTSETS[4]], only=dict(case, optset=case['optset']))
    else:
        m = next(m for m in MENU if m[0] == name)
        check_grammar(m[0], m[1], m[2], m[3], m[4], 5, res, only=case)
    return [v for v in res['viol'] if v['kind'] == case_kind(case, v)]


def case_kind(case, v):
    return v['kind']
