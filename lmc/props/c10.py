"""C10 -- a Lark instance is a pure function of its input: reusable and thread-safe (DESIGN.md section 4, C10)."""
import itertools

from lark import Lark, Token, Tree, Transformer
from lark.indenter import Indenter
from lark.exceptions import UnexpectedInput

from .. import larkio, util, obs, sched, discover
from ..famrun import new_res

ID = 'C10'
LEVEL = 'model_checking'
RULE = ('Part A (explicit-state search over call histories): for 14 configurations (incl. several start symbols, and TextSlice input over texts released after each call with the next text steered to the released address), every sequence of <= 3 (thorough 4) '
        'operations from the per-configuration alphabet (parse ok / lexing error / syntax error / dedent error, lex consumed / '
        'abandoned / dont_ignore, scan consumed / abandoned, abandoned interactive session, other instances created) is executed '
        'on one instance; after every step the observation must equal that of the same operation on a fresh instance. '
        'Part B (stateless schedule exploration, iterative preemption bounding): 2 (thorough also 3) real threads share one cold '
        'instance under a cooperative scheduler that owns every context switch (sys.monitoring LINE events; scheduling points on '
        'every line of the discovered shared-state writers and on the lines of readers that touch a shared attribute); all '
        'schedules with <= 2 (thorough 3) preemptions are executed and every thread\'s observation must equal the sequential one. '
        'states = histories / schedules executed, transitions = operations / scheduling decisions, traces = complete executions')
ASSUMPTIONS = ['thread switches are explored at source-line granularity inside the functions that write or read the shared attributes found by the discovery pass; all other code is treated as atomic, licensed by the idempotent warm-up obligation (a warm operation leaves the object-graph snapshot unchanged), which is checked',
               'preemption bound as stated; CPython may switch between bytecodes of one line: not modelled',
               'fresh instance / sequential execution is the reference']
DEADLINE = {'quick': 1200, 'thorough': 4 * 3600}

KW = 'start: stmt+\nstmt: KW NAME | NAME\nKW: "if"\nNAME: /[a-z]+/\n%ignore " "\n'
OTHER = 'start: "x"+\n'
INDENT_G = ('start: (_NL | stmt)*\nstmt: NAME _NL [_INDENT stmt+ _DEDENT] | "(" NAME ")" _NL\nNAME: /[a-z]+/\n_NL: /(\\r?\\n[\\t ]*)+/\n'
            '%declare _INDENT _DEDENT\n%ignore " "\n')


class MyIndenter(Indenter):
    NL_type = '_NL'
    OPEN_PAREN_types = ['LPAR']
    CLOSE_PAREN_types = ['RPAR']
    INDENT_type = '_INDENT'
    DEDENT_type = '_DEDENT'
    tab_len = 8


class Up(Transformer):
    def NAME(self, t):
        return t.update(value=t.value.upper())

    def stmt(self, ch):
        return ('stmt', tuple(str(c) for c in ch))


def upper(t):
    return t.update(value=t.value.upper())


PRIO = 'start: stmt+\nstmt: a | b\na.2: NAME\nb.1: NAME\nKW: "if"\nNAME: /[a-z]+/\n%ignore " "\n'

MULTI = 'a: NAME (PLUS NAME)*\nb: NAME (COMMA NAME)* SEMI?\nNAME: /[a-z]+/\nPLUS: "+"\nCOMMA: ","\nSEMI: ";"\n%ignore " "\n'
MULTI_TEXTS = {'a:ok': 'x + y', 'b:ok': 'x , y', 'a:bad': 'x x', 'b:bad': 'x , , y', 'a:bad-lex': 'x + 9', 'b:short': 'x ,', 'a:one': 'x', 'b:one': 'x'}
SLICE_G = 'start: stmt+\nstmt: KW NAME | NAME\nKW: "if"\nNAME: /[a-z]+/\n%ignore /[ \\n-]+/\n'
SLICE_START = 12
# equal lengths (one allocation size class), different line structure before the slice
SLICE_PARTS = {'n5': ('\n' * 5 + '-' * 7, 'ab if cd\nef gh'), 'n1': ('\n' + '-' * 11, 'if xy\nzz if q q'), 'n0': ('-' * 12, 'pq rs\ntu if vw'),
               'n5bad': ('\n' * 5 + '-' * 7, 'ab if if 9\ncd gh')}

PH_G = 'start: decl+\ndecl: _mods NAME ";"\n_mods: [PUB] [STATIC]\nPUB: "pub"\nSTATIC: "static"\nNAME: /[a-z]+/\n%ignore " "\n'
VERB_G = 'start: (A | B)+\nA: /a  b/x\nB: /abc?/\n%ignore " "\n'
VERB_OTHER = 'start: X+\nX: /a  b/\n'

CONFIGS = {
    # the instance is built from a lark Grammar *object* that later instances of the same history share
    'earley-shared-grammar': (PRIO, dict(parser='earley', lexer='basic', grammar_object=True)),
    'lalr-contextual': (KW, dict(parser='lalr', lexer='contextual')),
    'lalr-basic': (KW, dict(parser='lalr', lexer='basic')),
    'lalr-basic-cb': (KW, dict(parser='lalr', lexer='basic', lexer_callbacks={'NAME': upper})),
    'lalr-contextual-cb': (KW, dict(parser='lalr', lexer='contextual', lexer_callbacks={'NAME': upper})),
    'lalr-transformer': (KW, dict(parser='lalr', transformer='Up')),
    'earley-basic': (KW, dict(parser='earley', lexer='basic')),
    'earley-dynamic': (KW, dict(parser='earley', lexer='dynamic')),
    'cyk': (KW, dict(parser='cyk')),
    # several start symbols: each call names one; the continuation sets of errors / sessions are part of the observation
    'lalr-multistart': (MULTI, dict(parser='lalr', start=['a', 'b'])),
    # TextSlice input with start > 0 over texts that are built for the call and released afterwards (the next text is
    # steered to the address of the released one: object identity must not carry anything over)
    'lalr-slice': (SLICE_G, dict(parser='lalr')),
    # an inlined rule made of optionals only, first in its parent: placeholder lists must not be shared between reductions
    'lalr-placeholders': (PH_G, dict(parser='lalr')),
    # a verbose regexp next to a terminal whose width lies between its true and its written width; the 'other' instance
    # of this configuration contains the same regexp text *without* the x flag
    'lalr-verbose': (VERB_G, dict(parser='lalr', lexer='basic')),
    'lalr-indenter': (INDENT_G.replace('"("', 'LPAR').replace('")"', 'RPAR') + 'LPAR: "("\nRPAR: ")"\n', dict(parser='lalr', postlex='MyIndenter')),
}


def mk(cfg):
    g, o = CONFIGS[cfg]
    o = dict(o)
    if o.get('transformer') == 'Up':
        o['transformer'] = Up()
    if o.get('postlex') == 'MyIndenter':
        o['postlex'] = MyIndenter()
    if o.pop('grammar_object', False):
        from lark.load_grammar import load_grammar
        gobj = load_grammar(g, '<string>', [], False)[0]
        p = Lark(gobj, **o)
        p._lmc_grammar_object = gobj
        return p
    return Lark(g, **o)


def texts(cfg):
    if cfg == 'lalr-indenter':
        return {'ok': 'a\n  b\n  c\nd\n', 'ok2': '(a)\nb\n', 'bad-lex': 'a\n  !\n', 'bad-syntax': 'a a\n', 'bad-dedent': 'a\n    b\n  c\n', 'open': 'a\n  (b\n'}
    if cfg == 'lalr-placeholders':
        return {'ok': 'x; y;', 'ok2': 'pub x; static pub;', 'bad-lex': 'x; 9', 'bad-syntax': 'x x;', 'bad-dedent': None, 'open': None}
    if cfg == 'lalr-verbose':
        return {'ok': 'abab', 'ok2': 'abc ab', 'bad-lex': 'ab 9', 'bad-syntax': 'ab', 'bad-dedent': None, 'open': None}
    return {'ok': 'if ab cd', 'ok2': 'x if y', 'bad-lex': 'if 9', 'bad-syntax': 'if if', 'bad-dedent': None, 'open': None}


def canon_any(x):
    if hasattr(x, 'range') and hasattr(x, 'value'):
        return ('match', tuple(x.range), obs.canon(x.value, pos=True))
    return obs.canon(x, pos=True)


FULL_EXC = [False]     # part A observes the whole exception (token, expected / allowed / accepts sets), part B class and position


class SliceTexts:
    """Texts for the lalr-slice configuration: every operation gets a *new* str object.  In 'steer' mode the text of the
    previous operation has been released and the new one is steered to its address (allocate same-sized strings until one
    lands there, at most 64 tries); in 'hold' mode (reference observations) every text stays alive, so no address is reused."""
    mode = 'hold'
    alive = []
    last_id = None
    steered = 0

    @classmethod
    def make(cls, key):
        pre, body = SLICE_PARTS[key]
        assert len(pre) == SLICE_START
        if cls.mode == 'hold':
            t = ''.join([pre, body])
            cls.alive.append(t)
            return t
        tries = []
        t = ''.join([pre, body])
        while cls.last_id is not None and id(t) != cls.last_id and len(tries) < 64:
            tries.append(t)
            t = ''.join([pre, body])
        if id(t) == cls.last_id:
            cls.steered += 1
        del tries
        return t

    @classmethod
    def release(cls, t):
        cls.last_id = id(t)


def guarded(fn):
    import threading
    if threading.current_thread() is not threading.main_thread():
        try:                            # signals (the watchdog) only work in the main thread
            r = ('ok', fn())
        except Exception as e:
            r = ('exc', e)
    else:
        r = util.timed(fn, 20)
    if r[0] == 'ok':
        return ('ok', r[1])
    if r[0] == 'hang':
        return ('hang',)
    if FULL_EXC[0]:
        return ('exc', obs.exc(r[1]), tuple(sorted(str(r[1])[:400].splitlines())) if obs.is_unexpected_input(r[1]) else ())   # set-valued parts of the message: order-free
    return ('exc', type(r[1]).__name__, getattr(r[1], 'pos_in_stream', None), str(getattr(r[1], 'line', None)), str(getattr(r[1], 'column', None)))


def session(ip):
    """Feed every token of an interactive session; observe the accepts() set before each token and at the end."""
    out = [tuple(sorted(ip.accepts()))]
    for t in ip.lexer_thread.lex(ip.parser_state):
        ip.feed_token(t)
        out.append((obs.tok(t), tuple(sorted(ip.accepts()))))
    return out


def op_run(p, cfg, op):
    """Execute one operation of the alphabet on instance p; return its canonical observation."""
    T = texts(cfg)
    kind, arg = op
    g, o = CONFIGS[cfg]
    lalr = o.get('parser') == 'lalr'
    if kind.endswith('@'):      # lalr-multistart: arg = '<start>:<text key>'
        st, text = arg.split(':')[0], MULTI_TEXTS[arg]
        if kind == 'parse@':
            return guarded(lambda: canon_any(p.parse(text, start=st)))
        if kind == 'session@':
            return guarded(lambda: session(p.parse_interactive(text, start=st)))
        if kind == 'lex@':
            return guarded(lambda: [obs.tok(t) for t in p.lex(text)])
    if kind.endswith('/'):      # lalr-slice: arg = key of SLICE_PARTS; the text object lives for this call only
        from lark.utils import TextSlice
        text = SliceTexts.make(arg)
        sl = TextSlice(text, SLICE_START, len(text))
        try:
            if kind == 'parse/':
                return guarded(lambda: canon_any(p.parse(sl)))
            if kind == 'lex/':
                return guarded(lambda: [obs.tok(t) for t in p.lex(sl)])
            if kind == 'scan/':
                return guarded(lambda: [canon_any(m) for m in p.scan(sl)])
            if kind == 'session/':
                return guarded(lambda: session(p.parse_interactive(sl)))
        finally:
            SliceTexts.release(text)
            del sl, text
    if kind == 'parse':
        return guarded(lambda: canon_any(p.parse(T[arg])))
    if kind == 'lex':
        return guarded(lambda: [obs.tok(t) for t in p.lex(T[arg])])
    if kind == 'lex1':          # abandoned after one token
        def f():
            it = iter(p.lex(T[arg]))
            t = next(it, None)
            return obs.tok(t) if t is not None else None
        return guarded(f)
    if kind == 'lex-all':       # dont_ignore=True
        return guarded(lambda: [obs.tok(t) for t in p.lex(T[arg], dont_ignore=True)])
    if kind == 'lex-all1':
        def f():
            it = iter(p.lex(T[arg], dont_ignore=True))
            t = next(it, None)
            return obs.tok(t) if t is not None else None
        return guarded(f)
    if kind == 'scan':
        return guarded(lambda: [canon_any(m) for m in p.scan('9 ' + T[arg] + ' 9 ' + T['ok2'])])
    if kind == 'scan-short':    # thread scenarios: fewer tokens, so that bound 2 completes below the schedule cap
        return guarded(lambda: [canon_any(m) for m in p.scan('9 if a 9 b')])
    if kind == 'scan1':
        def f():
            it = iter(p.scan('9 ' + T[arg] + ' 9 ' + T['ok2']))
            m = next(it, None)
            return canon_any(m) if m is not None else None
        return guarded(f)
    if kind == 'interactive1':  # feed one token from the lexer and abandon the session
        def f():
            ip = p.parse_interactive(T[arg])
            it = ip.iter_parse()
            t = next(it)
            next(it, None)
            return (obs.tok(t), tuple(sorted(ip.accepts())))
        return guarded(f)
    if kind == 'new-shared':    # another instance built from the SAME Grammar object, with another priority mode
        def f():
            q = Lark(p._lmc_grammar_object, parser='earley', lexer='basic', priority=arg)
            return canon_any(q.parse(T['ok']))
        return guarded(f)
    if kind == 'new':           # another instance in the same process
        def f():
            q = mk(cfg) if arg == 'same' else Lark(VERB_OTHER if cfg == 'lalr-verbose' else OTHER, parser='lalr')
            return canon_any(q.parse(T['ok'] if arg == 'same' else ('a  ba  b' if cfg == 'lalr-verbose' else 'xx')))
        return guarded(f)
    raise KeyError(op)


def alphabet(cfg):
    g, o = CONFIGS[cfg]
    T = texts(cfg)
    if cfg == 'lalr-multistart':
        return [('parse@', k) for k in MULTI_TEXTS] + [('session@', k) for k in ('a:ok', 'b:ok', 'a:one', 'b:one', 'b:short')] + [('lex@', 'a:ok')]
    if cfg == 'lalr-slice':
        return [('parse/', k) for k in SLICE_PARTS] + [('lex/', 'n5'), ('lex/', 'n0'), ('scan/', 'n5'), ('scan/', 'n1'), ('session/', 'n1'), ('session/', 'n0')]
    ops = [('parse', 'ok'), ('parse', 'ok2'), ('parse', 'bad-lex'), ('parse', 'bad-syntax'), ('new', 'same'), ('new', 'other')]
    if T['bad-dedent']:
        ops += [('parse', 'bad-dedent'), ('parse', 'open')]
    if o.get('grammar_object'):
        ops += [('new-shared', 'invert'), ('new-shared', None), ('new-shared', 'normal')]
    if o.get('lexer') != 'dynamic' and o.get('parser') != 'cyk' or True:
        if o.get('lexer') != 'dynamic':
            ops += [('lex', 'ok'), ('lex1', 'ok2'), ('lex-all', 'ok'), ('lex-all1', 'ok2'), ('lex', 'bad-lex')]
            if T['open']:
                ops += [('lex1', 'open'), ('lex', 'bad-dedent')]
    if o.get('parser') == 'lalr' and 'postlex' not in o:
        ops += [('scan', 'ok'), ('scan1', 'ok'), ('interactive1', 'ok'), ('interactive1', 'bad-syntax')]
    return ops


def part_a(cfg, depth, first_ops, res, only=None):
    ops = alphabet(cfg)
    fresh = {}
    FULL_EXC[0] = True
    SliceTexts.mode, SliceTexts.last_id = 'hold', None
    for op in ops:
        fresh[op] = op_run(mk(cfg), cfg, op)
        res['evals'] += 1
    SliceTexts.mode = 'steer'
    seqs = [tuple(tuple(o) for o in only['history'])] if only else \
        [s for d in range(1, depth + 1) for s in itertools.product(ops, repeat=d) if s[0] in first_ops]
    for seq in seqs:
        p = mk(cfg)
        res['states'] += 1
        res['traces'] += 1
        SliceTexts.last_id = None
        for i, op in enumerate(seq):
            got = op_run(p, cfg, op)
            res['transitions'] += 1
            if i:
                res['nontrivial'] += 1
            if got != fresh[op]:
                res['viol'].append({'kind': 'history-dependence', 'cause': 'history:' + '>'.join(o[0] for o in seq[:i + 1]),
                                    'case': {'part': 'A', 'config': cfg, 'history': [list(o) for o in seq[:i + 1]], 'depth': depth},
                                    'expected': fresh[op], 'observed': got})
                break
    FULL_EXC[0] = False
    if cfg == 'lalr-slice':
        res['counters']['lalr-slice: operations whose text was placed at the address of the released previous text'] += SliceTexts.steered
        SliceTexts.steered = 0
        del SliceTexts.alive[:]
    if len(res['samples']) < 1 and seqs:
        res['samples'].append({'config': cfg, 'history': [list(o) for o in seqs[len(seqs) // 2]], 'every_step_equal_to_fresh_instance': True})


# --------------------------------------------------------------------------------------------------- part A0: creation order

OTHERS = {'verbose-other': VERB_OTHER}      # besides every configuration of CONFIGS


def first_observations(before, cfg):
    """In THIS (fresh) process: create the `before` instance (if any) and use it once, then observe every operation of
    cfg's alphabet on fresh instances of cfg."""
    FULL_EXC[0] = True
    SliceTexts.mode, SliceTexts.last_id = 'hold', None
    if before:
        if before in OTHERS:
            q = Lark(OTHERS[before], parser='lalr')
            try:
                q.parse('a  ba  b')
            except Exception:
                pass
        else:
            q = mk(before)
            op_run(q, before, alphabet(before)[0])
    return [repr(op_run(mk(cfg), cfg, op)) for op in alphabet(cfg) if op[0] != 'new-shared']


def part_a0(cfg, res, only=None):
    """'... unaffected by other instances created in the process': the first observations of cfg in a process where
    another instance (every configuration, plus a grammar sharing a regexp text with lalr-verbose) was created and used
    before must equal those of a process that only ever created cfg."""
    import json
    import subprocess
    import sys

    def child(before):
        r = subprocess.run([sys.executable, '-m', 'lmc.props.c10', json.dumps([before, cfg])], capture_output=True, text=True, timeout=600)
        if r.returncode != 0:
            return ['child failed: ' + r.stderr[-300:]]
        return json.loads(r.stdout)
    base = child(None)
    res['evals'] += 1
    ops = [op for op in alphabet(cfg) if op[0] != 'new-shared']
    for before in list(CONFIGS) + list(OTHERS):
        if before == cfg or (only and only['created_before'] != before):
            continue
        got = child(before)
        res['evals'] += 1
        res['states'] += 1
        res['traces'] += 1
        res['transitions'] += len(got)
        res['nontrivial'] += 1
        if got != base:
            i = next((i for i, (a, b) in enumerate(zip(got, base)) if a != b), 0)
            res['viol'].append({'kind': 'depends-on-instances-created-before', 'cause': 'creation-order:' + cfg,
                                'case': {'part': 'A0', 'config': cfg, 'created_before': before, 'operation': list(ops[i]) if i < len(ops) else None},
                                'expected': base[i][:300] if i < len(base) else None, 'observed': got[i][:300] if i < len(got) else None})


# --------------------------------------------------------------------------------------------------- part B: threads

SCENARIOS = {
    # name: (config, thread operations)
    'cb-parse-parse': ('lalr-basic-cb', [('parse', 'ok'), ('parse', 'ok2')]),
    'ctx-cb-parse-parse': ('lalr-contextual-cb', [('parse', 'ok'), ('parse', 'ok2')]),
    'ctx-ok-bad': ('lalr-contextual', [('parse', 'ok'), ('parse', 'bad-lex')]),
    'ctx-scan-scan': ('lalr-contextual', [('scan-short', 'ok'), ('scan-short', 'ok')]),
    'ctx-scan-parse': ('lalr-contextual', [('scan-short', 'ok'), ('parse', 'ok2')]),
    'basic-lex-parse': ('lalr-basic', [('lex', 'ok'), ('parse', 'ok2')]),
    'transformer-parse-parse': ('lalr-transformer', [('parse', 'ok'), ('parse', 'ok2')]),
    'earley-basic-parse-parse': ('earley-basic', [('parse', 'ok2'), ('parse', 'ok')]),
    'earley-dynamic-parse-parse': ('earley-dynamic', [('parse', 'ok2'), ('parse', 'ok')]),
    'indenter-free-lex': ('lalr-basic', [('lex-all', 'ok'), ('lex', 'ok2')]),
}
SCENARIOS3 = {
    'cb-3-parses': ('lalr-basic-cb', [('parse', 'ok'), ('parse', 'ok2'), ('parse', 'ok')]),
    'ctx-3-mixed': ('lalr-contextual', [('parse', 'ok'), ('scan-short', 'ok'), ('parse', 'bad-syntax')]),
}


def part_b(name, bound, cap, res, only=None, split=None):
    cfg, tops = (SCENARIOS.get(name) or SCENARIOS3[name])
    # sequential reference: each op on its own fresh instance
    seq = [op_run(mk(cfg), cfg, op) for op in tops]
    # discovery: cold run of all thread ops on one instance, then the same ops again (warm)
    p0 = mk(cfg)
    D = discover.Discovery(lambda: [('instance', p0)])
    ops = [(lambda op=op: op_run(p0, cfg, op)) for op in tops]
    writers, dres = D.run(ops + ops)
    res['counters']['discovery: attrs=%s' % ','.join(sorted(set().union(*[n for w in writers for n in w.values()] or [set()])))] += 1
    nw = len(tops)
    warm_changed = [r['attrs_overall'] for r in dres[nw:] if r['changed_overall']]
    plan, attrs = discover.instrumentation(writers)
    res['counters']['discovery: return events monitored'] += D.return_events
    res['counters']['discovery: instrumented functions'] += len(plan)
    case0 = {'part': 'B', 'scenario': name, 'config': cfg, 'thread_ops': [list(o) for o in tops], 'bound': bound}
    if warm_changed:
        # the warm-up obligation: after its first execution an operation must leave the shared object graph unchanged
        res['viol'].append({'kind': 'warm-operation-changes-shared-state', 'cause': 'steady-state-write', 'case': case0,
                            'expected': 'object-graph snapshot identical before/after a repeated operation', 'observed': warm_changed})
    if not plan:
        res['counters']['scenarios without any shared-state write (nothing to schedule)'] += 1
    S = sched.Scheduler(plan)
    outcomes = {}
    nbad = [0]

    def run(prefix):
        p = mk(cfg)
        bodies = [(lambda op=op: op_run(p, cfg, op)) for op in tops]
        return S.run(bodies, prefix)

    def check(ex, prefix):
        got = [r[1] if r[0] == 'ok' else ('thread-exc', repr(r[1])[:200]) for r in ex.results]
        res['transitions'] += len(ex.points)
        res['traces'] += 1
        res['states'] += 1
        res['nontrivial'] += 1 if sched.preemptions(ex) else 0
        key = repr(got)
        outcomes[key] = outcomes.get(key, 0) + 1
        if got != seq:
            nbad[0] += 1
            if nbad[0] <= 3:
                i = next(i for i, (a, b) in enumerate(zip(got, seq)) if a != b)
                res['viol'].append({'kind': 'schedule-dependence', 'cause': 'race:' + name,
                                    'case': dict(case0, schedule=list(ex.choices), preemptions=sched.preemptions(ex), thread=i),
                                    'expected': seq[i], 'observed': got[i]})
    try:
        if only is not None and 'schedule' in only:
            ex = run(only['schedule'])
            check(ex, only['schedule'])
        else:
            n, capped = sched.explore(run, check, bound, max_schedules=cap, first_filter=split, max_seconds=75 if (cap or 0) <= 6000 else 3000)
            res['counters']['schedules executed'] += n
            if capped:
                res['counters']['scenarios whose exploration hit the schedule cap (not exhaustive)'] += 1
            res['extra'] = {'scenario': name, 'bound': bound, 'schedules': n, 'capped': capped, 'distinct_outcomes': len(outcomes),
                            'shared_attributes': sorted(attrs), 'instrumented': sorted(c.co_qualname for c in plan)}
            if len(res['samples']) < 1:
                res['samples'].append(res['extra'])
    finally:
        S.close()


def plan(tier, seed):
    depth = 3 if tier == 'quick' else 4
    items = []
    for cfg in CONFIGS:
        ops = alphabet(cfg)
        for op in ops:      # split by first operation
            items.append(('A', cfg, depth, [op]))
    for cfg in CONFIGS:
        items.append(('A0', cfg))
    bound = 2 if tier == 'quick' else 3
    cap = 6000 if tier == 'quick' else 400000
    for name in SCENARIOS:
        items.append(('B', name, bound, cap))
    for name in SCENARIOS3:     # three threads: bound 1 in the quick tier, bound 2 in the thorough tier
        items.append(('B', name, 1 if tier == 'quick' else 2, cap))
    return items


def bounds(tier, seed):
    return {'part_A': {'configurations': list(CONFIGS), 'depth': 3 if tier == 'quick' else 4, 'alphabet_sizes': {c: len(alphabet(c)) for c in CONFIGS}},
            'part_B': {'scenarios': {k: v[1] for k, v in SCENARIOS.items()}, 'preemption_bound': 2 if tier == 'quick' else 3,
                       'schedule_cap_per_scenario': '6000 schedules or 75 s' if tier == 'quick' else '400000 schedules or 3000 s',
                       'three_thread_scenarios': {k: v[1] for k, v in SCENARIOS3.items()}, 'three_thread_preemption_bound': 1 if tier == 'quick' else 2}}


def work(item):
    res = new_res()
    if item[0] == 'A':
        part_a(item[1], item[2], [tuple(o) for o in item[3]], res)
    elif item[0] == 'A0':
        part_a0(item[1], res)
    else:
        part_b(item[1], item[2], item[3], res)
    res['counters'] = dict(res['counters'])
    return res


def finalize(extra, tier, seed):
    cov = {'thread_scenarios': extra}
    if any(e.get('capped') for e in extra):
        cov['exhaustive'] = False
        cov['cap_hit'] = 'schedule cap reached in: %s (all schedules below the cap were executed; the other scenarios are complete)' % \
            ', '.join(e['scenario'] for e in extra if e.get('capped'))
    return {'coverage': cov}


def replay(case):
    res = new_res()
    if case['part'] == 'A0':
        part_a0(case['config'], res, only=case)
    elif case['part'] == 'A':
        part_a(case['config'], case['depth'], None, res, only=case)
    else:
        part_b(case['scenario'], case['bound'], 40, res, only=case)
    return [v for v in res['viol'] if v['kind'] != 'warm-operation-changes-shared-state' or case.get('schedule') is None]


if __name__ == '__main__':
    import json
    import sys
    before, cfg = json.loads(sys.argv[1])
    print(json.dumps(first_observations(before, cfg)))
