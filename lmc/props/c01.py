"""C01 -- Earley accepts exactly the language of the grammar (DESIGN.md section 4, C01)."""
from .. import families, gram, refsem, reflex, larkio, util
from ..gram import Term
from lark.exceptions import GrammarError

ID = 'C01'
LEVEL = 'exploration'
RULE = ('every grammar of the listed families x every lexer of the box x every input string up to the length bound '
        'is run through Lark(parser=earley).parse and compared with a least-fix-point chart recogniser over our own '
        'grammar AST; a case (grammar, lexer, input) is non-trivial when the grammar is recursive, nullable or has '
        'two alternatives somewhere and the input is non-empty; work items are disjoint index ranges, so distinct '
        'cases are counted by construction')
ASSUMPTIONS = ['CPython re decides membership of a string in a single terminal (fullmatch, one terminal at a time)',
               'reference recogniser refsem.Chart (cross-validated against brute-force sentence generation in C01 box xval)',
               'inputs bounded as stated in coverage.bounds; grammars limited to the listed families']
DEADLINE = {'quick': 900, 'thorough': 3 * 3600}

COLL = {'a': (('tok', 'A'), [Term('A', (('str', 'a', ''),))]),
        'b': (('tok', 'B'), [Term('B', (('str', 'b', ''),))]),
        'c': (('tok', 'AB'), [Term('AB', (('str', 'ab', ''),))])}
REGS = {'p': (('tok', 'P'), [Term('P', (('re', 'a+', ''),))]),
        'q': (('tok', 'Q'), [Term('Q', (('re', 'ab?', ''),))]),
        'r': (('tok', 'R'), [Term('R', (('re', '[ab]+', ''),))]),
        's': (('tok', 'S'), [Term('S', (('re', 'ab|a', ''),))]),
        't': (('tok', 'T'), [Term('T', (('re', 'b', ''),))]),
        'e': (('tok', 'E'), [Term('E', (('re', 'a|ab', ''),))])}     # leftmost-first != longest (finding #16)
ALTS = {'u': (('tok', 'U'), [Term('U', (('str', 'aa', ''), ('re', 'a+', '')))]),            # alternatives inside one terminal:
        'v': (('tok', 'V'), [Term('V', (('str', 'ab', ''), ('re', 'a[bc]*', '')))]),       # lark orders them longest-first
        'w': (('tok', 'W'), [Term('W', (('str', 'b', ''), ('str', 'bc', ''), ('str', 'c', '')))]),
        'g': (('tok', 'G'), [Term('G', (('range', 'bc', ''), ('str', 'cc', '')))])}          # a literal range "b".."c"
WS = Term('WS', (('str', ' ', ''),))
AB_SP = {'a': (('tok', 'A'), [Term('A', (('str', 'a', ''),))]),
         'b': (('tok', 'ASB', ), [Term('ASB', (('str', 'a b', ''),))]),
         'c': (('tok', 'SB', ), [Term('SB', (('str', ' b', ''),))])}      # starts with the ignored character (issue #768)
AB_SP['d'] = (('tok', 'SX'), [Term('SX', (('str', ' ', ''), ('str', 'b', '')))])    # can match the ignored character itself

IG_A = Term('IGA', (('str', ' ', ''),))
IG_B = Term('IGB', (('str', ' a', ''),))         # second ignored terminal: same start, longer
AB = {'a': (('tok', 'A'), [Term('A', (('str', 'a', ''),))]), 'b': (('tok', 'B'), [Term('B', (('str', 'b', ''),))])}
NM1 = {'p': (('lit', '+'), []), 'q': (('tok', 'PLUS'), [Term('PLUS', (('str', '++', ''),))]), 'x': (('lit', 'x'), [])}
NM2 = {'p': (('lit', 'plus'), []), 'q': (('lit', '+'), []), 'c': (('lit', ','), []), 'n': (('tok', 'COMMA'), [Term('COMMA', (('str', ';', ''),))])}
ALL3 = ('basic', 'dynamic', 'dynamic_complete')
DYN = ('dynamic', 'dynamic_complete')


def box(name):
    """-> (family, lexers, input alphabet, kind of basic-lexer oracle)"""
    B = families.BNF
    if name == 'a1':
        return B(2, 'x', 2, 2), ALL3, 'x'
    if name == 'a2':
        return B(2, 'xy', 2, 2), ALL3, 'xy'
    if name == 'a2i':
        return B(2, 'xy', 2, 2, ignore=('WS',), extra_terms=(WS,)), ALL3, 'xy '
    if name == 'a3':
        return B(2, 'xy', (3, 2), 2), ('basic', 'dynamic'), 'xy'
    if name == 'k3':
        return B(3, 'x', (2, 2, 1), 2), ALL3, 'x'
    if name == 'b':
        return B(2, 'abc', 2, 2, render=COLL), DYN, 'ab'
    if name == 'bb':        # the same colliding strings under lexer=basic: judged in *tokenised* mode (reference lexer first)
        return B(2, 'abc', 2, 2, render=COLL), ('basic',), 'ab'
    if name == 'bbi':
        return B(2, 'abc', (2, 1), 2, render=COLL, ignore=('WS',), extra_terms=(WS,)), ('basic',), 'ab '
    if name == 'bi':
        return B(2, 'abc', 2, 2, render=COLL, ignore=('WS',), extra_terms=(WS,)), DYN, 'ab '
    if name == 'bs':
        return B(2, 'abcd', (2, 1), 2, render=AB_SP, ignore=('WS',), extra_terms=(WS,)), DYN, 'ab '
    if name == 'd':
        return B(2, 'pqrst', (2, 1), 2, render=REGS), DYN, 'ab'
    if name == 'alt':
        return B(2, 'uvwg', (2, 1), 2, render=ALTS), DYN, 'abc'
    if name == 'd16':
        return B(2, 'pe', 2, 2, render=REGS), DYN, 'ab'
    if name == 'ig2':       # two ignored terminals that match at the same offset with different lengths
        return B(2, 'ab', (2, 1), 2, render=AB, ignore=('IGA', 'IGB'), extra_terms=(IG_A, IG_B)), DYN, 'ab '
    if name == 'ig2r':
        return B(2, 'ab', (2, 1), 2, render=AB, ignore=('IGB', 'IGA'), extra_terms=(IG_B, IG_A)), DYN, 'ab '
    if name == 'nm1':       # anonymous literal whose canonical name (PLUS) belongs to a different terminal
        return B(2, 'pqx', (2, 1), 2, render=NM1), DYN, '+x'
    if name == 'nm2':       # keyword literal "plus" auto-named PLUS, then "+"; "," next to a user terminal COMMA
        return B(2, 'pqcn', (2, 1), 2, render=NM2), ALL3, ('plus', '+', ',', ';')
    if name == 'e1':
        return families.EBNF(1), ALL3, 'xyz'
    if name == 'e2':
        return families.EBNF(2), ALL3, 'xyz'
    if name == 'e2i':
        return families.EBNF(2, ignore=('WS',), terms=families.XY_TERMS + (WS,)), ALL3, 'xy '
    raise KeyError(name)


# (box, slice modulus k or 1, input length L)
QUICK = [('a1', 1, 5), ('e1', 1, 4), ('a2', 8, 4), ('a2i', 32, 4), ('b', 64, 4), ('bi', 256, 4), ('bs', 32, 4),
         ('d', 32, 4), ('d16', 16, 4), ('e2', 16, 3),
         ('ig2', 16, 4), ('ig2r', 16, 4), ('nm1', 16, 4), ('nm2', 64, 3), ('bb', 32, 4), ('bbi', 32, 4), ('alt', 32, 4)]
THOROUGH = [('a1', 1, 6), ('e1', 1, 5), ('a2', 1, 5), ('a2i', 2, 4), ('b', 4, 4), ('bi', 16, 4), ('bs', 2, 5),
            ('d', 2, 4), ('d16', 1, 5), ('e2', 1, 4), ('e2i', 4, 4), ('a3', 4, 4), ('k3', 4, 5),
            ('ig2', 1, 4), ('ig2r', 1, 4), ('nm1', 1, 5), ('nm2', 2, 3), ('bb', 2, 5), ('bbi', 2, 4), ('alt', 1, 5)]
CHUNK = 96


def plan(tier, seed):
    items = []
    for name, k, L in (QUICK if tier == 'quick' else THOROUGH):
        fam = box(name)[0]
        idxs = families.slice_indices(len(fam), k, seed)
        n = len(idxs)
        for lo in range(0, n, CHUNK):
            items.append((name, k, seed % k, lo, min(n, lo + CHUNK), L))
    return items


def bounds(tier, seed):
    return [{'box': n, 'family_size': len(box(n)[0]), 'slice': '%d mod %d' % (seed % k, k) if k > 1 else 'complete',
             'lexers': box(n)[1], 'input_alphabet': box(n)[2], 'max_input_len': L}
            for n, k, L in (QUICK if tier == 'quick' else THOROUGH)]


def ref_modes(lexer):
    # basic: families guarantee a unique tokenisation (single-character / non-colliding terminals), so the
    # character-level language applies; dynamic: longest match per terminal; dynamic_complete: exact.
    return 'longest' if lexer == 'dynamic' else 'exact'


def nonlongest_terms(g, text):
    """Cause classifier for finding #16: terminals whose re first match is shorter than their longest match
    somewhere in this input."""
    bad = []
    for name, t in g.terms.items():
        for i in range(len(text)):
            e = reflex.ends(t.pats, text, i)
            f = reflex.re_first_match_end(t.pats, text, i)
            if e and f is not None and f < max(e):
                bad.append(name)
                break
    return bad


def tokenised_accepts(g, w):
    """lexer=basic with colliding terminals: the documented tiling first (reference lexer of C07), then the CFG over the
    token string."""
    used = {k[1] for k in gram.term_keys(g) if k[0] == 'tok'}      # lark drops terminals no rule refers to
    tdefs = [reflex.TDef(t.name, t.pats[0][0], t.pats[0][1], t.pats[0][2], t.prio) for t in g.terms.values() if t.name in used]
    lx = reflex.lex_basic(tdefs, set(g.ignore), w)
    if lx[0] != 'ok':
        return False
    return refsem.accepts(g, refsem.Edges.tokens(g, [('tok', typ) for typ, _, _ in lx[1]]))


def check_grammar(g, lexers, inputs, res, boxname, gidx):
    gtext = g.text()
    rec = any(it[0] == 'ref' for r in g.rules.values() for s, _ in r.alts for it in gram.items_of(s))
    nullable = bool(refsem.nullable_set(g)[0])
    multi = any(len(r.alts) > 1 for r in g.rules.values()) or any(
        it[0] in ('opt', 'star', 'plus', 'rep', 'maybe', 'group') for r in g.rules.values() for s, _ in r.alts for it in gram.items_of(s))
    interesting = rec or nullable or multi
    refcache = {}
    for lexer in lexers:
        r = larkio.build(gtext, parser='earley', lexer=lexer)
        res['evals'] += 1
        if r[0] != 'ok':
            if r[0] == 'exc' and isinstance(r[1], GrammarError) and refsem.construction_may_fail(g):
                res['counters']['construction: documented GrammarError (colliding optionals)'] += 1
                continue
            res['viol'].append({'kind': 'construction-' + larkio.outcome(r), 'cause': 'construction',
                                'case': {'box': boxname, 'grammar': gtext, 'lexer': lexer, 'gidx': gidx},
                                'expected': 'parser is constructed', 'observed': repr(r[1])[:300]})
            continue
        p = r[1]
        mode = ref_modes(lexer)
        for w in inputs:
            if (mode, w) not in refcache:
                if boxname in ('bb', 'bbi'):
                    refcache[mode, w] = tokenised_accepts(g, w)
                else:
                    refcache[mode, w] = refsem.accepts(g, refsem.Edges.chars(g, w, mode))
            want = refcache[mode, w]
            o = larkio.outcome(larkio.parse(p, w))
            res['evals'] += 1
            if interesting and w:
                res['nontrivial'] += 1
            if o != ('accept' if want else 'reject'):
                nl = nonlongest_terms(g, w)
                cause = 'regex-first-match-not-longest' if nl else 'language'
                res['viol'].append({'kind': 'language-' + o, 'cause': cause,
                                    'case': {'box': boxname, 'grammar': gtext, 'lexer': lexer, 'input': w, 'gidx': gidx},
                                    'expected': 'accept' if want else 'reject (UnexpectedInput)', 'observed': o})
            elif len(res['samples']) < 2 and interesting and len(w) >= 2 and want:
                res['samples'].append({'grammar': gtext, 'lexer': lexer, 'input': w, 'reference': 'accept', 'lark': o})


def work(item):
    name, k, r, lo, hi, L = item
    fam, lexers, alpha = box(name)
    inputs = list(util.strings(alpha, L))
    idxs = families.slice_indices(len(fam), k, r)
    res = {'evals': 0, 'nontrivial': 0, 'viol': [], 'samples': [], 'counters': _Counter()}
    for gi in idxs[lo:hi]:
        g = fam.grammar(gi)
        if g is None:
            res['counters']['skipped: non-terminal unreachable / duplicate'] += 1
            continue
        res['counters']['grammars'] += 1
        check_grammar(g, lexers, inputs, res, name, gi)
    res['counters'] = dict(res['counters'])
    return res


class _Counter(dict):
    def __missing__(self, k):
        return 0


def replay(case):
    fam, lexers, alpha = box(case['box'])
    g = fam.grammar(case['gidx'])
    res = {'evals': 0, 'nontrivial': 0, 'viol': [], 'samples': [], 'counters': _Counter()}
    check_grammar(g, [case['lexer']], [case['input']] if 'input' in case else [], res, case['box'], case['gidx'])
    return res['viol']
