"""Runner: ./check <ID> --tier quick|thorough | --replay FILE

Contract (MANIFEST.json): exit 0 if the property held on everything explored (known findings are
printed as KNOWN-FINDING lines), exit 1 + `VIOLATION property=<id> replay=<path>` for every new violation,
exit 2 for a harness error (never reported as a violation).  Rewrites evidence/<ID>.json on every run.
"""
import argparse
import importlib
import json
import multiprocessing as mp
import os
import shutil
import sys
import tempfile
import threading
import time
import traceback

from . import util, known


def _load(prop):
    return importlib.import_module('lmc.props.%s' % prop.lower())


_MOD = None


def _init_worker(prop, mem_gib):
    global _MOD
    import signal
    signal.signal(signal.SIGINT, signal.SIG_IGN)
    _MOD = _load(prop)
    util.limit_memory(mem_gib)


def _work(item):
    t0 = time.time()
    try:
        res = _MOD.work(item)
        res.setdefault('errors', [])
    except util.Hang:
        res = {'errors': ['watchdog fired outside an evaluation in item %r' % (item,)]}
    except BaseException as e:     # harness error: reported, never a violation
        res = {'errors': ['%s in item %r\n%s' % (type(e).__name__, item, traceback.format_exc())]}
    res['item'] = item
    res['wall'] = time.time() - t0
    v = res.get('viol', [])
    if len(v) > 20:
        # known findings: keep a few witnesses per key, count the rest (they never count towards the violation cap)
        kf = known.Known(_MOD.ID)
        kept, per_key = [], {}
        for x in v:
            e = kf.match(x)
            if e is None:
                kept.append(x)
            else:
                per_key[e['key']] = per_key.get(e['key'], 0) + 1
                if per_key[e['key']] <= 3:
                    kept.append(x)
                else:
                    res.setdefault('known_dropped', {})
                    res['known_dropped'][e['key']] = res['known_dropped'].get(e['key'], 0) + 1
        v = res['viol'] = kept
    if len(v) > 60:         # keep the pipe to the parent small: the smallest cases of each (kind, cause) survive
        v.sort(key=lambda x: len(repr(x.get('case'))))
        keep, per = [], {}
        for x in v:
            k = (x.get('kind'), x.get('cause'))
            per[k] = per.get(k, 0) + 1
            if per[k] <= 12 and len(keep) < 60:
                keep.append(x)
        res['viol_dropped'] = len(v) - len(keep)
        res['viol'] = keep
    return res


def check_tree():
    import lark
    want = os.path.realpath(util.repo_dir())
    got = os.path.realpath(lark.__file__)
    if not got.startswith(want + os.sep):
        print('HARNESS-ERROR: lark imported from %s, expected under %s' % (got, want))
        sys.exit(2)
    return got


def write_replay(prop, v):
    d = os.path.join(util.out_dir(), 'replays', prop)
    os.makedirs(d, exist_ok=True)
    path = os.path.join(d, '%s.json' % util.digest([v.get('cause'), v.get('case'), v.get('kind')]))
    with open(path, 'w') as f:
        json.dump(util.jsonable(v), f, indent=1, sort_keys=True)
    return path


def confirm(mod, v):
    """Replay a violation twice from its recorded case; returns (reproduced_both_times, identical)."""
    if not hasattr(mod, 'replay'):
        return None
    try:
        case = util.unjson(util.jsonable(v['case']))
        r1 = mod.replay(case)
        r2 = mod.replay(case)
    except BaseException as e:
        return 'replay raised %s: %s' % (type(e).__name__, e)
    # compared on (kind, cause): observations may contain ids that differ between constructions (LALR state numbers)
    k1 = sorted(util.digest([x.get('kind'), x.get('cause')]) for x in r1)
    k2 = sorted(util.digest([x.get('kind'), x.get('cause')]) for x in r2)
    if k1 != k2:
        return 'nondeterministic replay'
    return bool(r1)


def do_replay(mod, path):
    with open(path) as f:
        v = util.unjson(json.load(f))
    res = mod.replay(v['case'])
    kf = known.Known(mod.ID)
    new = [x for x in res if not kf.match(x)]
    for x in res:
        print(json.dumps(util.jsonable({k: x.get(k) for k in ('kind', 'cause', 'expected', 'observed')}), indent=1))
    if new:
        print('VIOLATION property=%s replay=%s' % (mod.ID, path))
        return 1
    for x in res:
        print('KNOWN-FINDING: property=%s %s' % (mod.ID, kf.match(x)['what']))
    print('replay: property holds on this case' if not res else 'replay: only known findings reproduced')
    return 0


def main(argv=None):
    ap = argparse.ArgumentParser()
    ap.add_argument('prop')
    ap.add_argument('--tier', default=os.environ.get('VERIF_TIER', 'quick'), choices=['quick', 'thorough'])
    ap.add_argument('--replay')
    ap.add_argument('--jobs', type=int, default=int(os.environ.get('LMC_JOBS', '16')))
    ap.add_argument('--deadline', type=float, default=None, help='wall-clock cap in seconds')
    ap.add_argument('--max-report', type=int, default=8)
    args = ap.parse_args(argv)
    seed = int(os.environ.get('VERIF_SEED', '0') or 0)
    t0 = time.time()
    tree = check_tree()
    mod = _load(args.prop)
    prop = mod.ID
    scratch = tempfile.mkdtemp(prefix='lmc_%s_' % prop, dir='/dev/shm' if os.path.isdir('/dev/shm') else None)
    os.environ['LMC_SCRATCH'] = scratch
    try:
        if args.replay:
            return do_replay(mod, args.replay)
        return run(mod, args, seed, t0, tree)
    finally:
        shutil.rmtree(scratch, ignore_errors=True)


def _shutdown(pool):
    """pool.terminate() can block for ever when workers are stuck writing large results: kill them first."""
    import signal
    for w in list(getattr(pool, '_pool', [])):
        try:
            os.kill(w.pid, signal.SIGKILL)
        except (OSError, AttributeError):
            pass
    t = threading.Thread(target=lambda: (pool.terminate(), pool.join()), daemon=True)
    t.start()
    t.join(20)


def run(mod, args, seed, t0, tree):
    prop, tier = mod.ID, args.tier
    deadline = args.deadline or getattr(mod, 'DEADLINE', {}).get(tier, 1500 if tier == 'quick' else 6 * 3600)
    items = list(mod.plan(tier, seed))
    n_items = len(items)
    # VERIF_SEED rotates the order in which work items are handed out (the set of items may also contain a
    # seed-selected slice of the next larger box -- decided by plan()); nothing is sampled.
    if n_items:
        r = seed % n_items
        items = items[r:] + items[:r]
    agg = {'evals': 0, 'nontrivial': 0, 'states': 0, 'transitions': 0, 'traces': 0}
    counters, samples, viols, errors, extra = {}, [], [], [], []
    done = 0
    capped = False
    n_new = 0
    dropped = 0
    known_extra = {}
    kf0 = known.Known(prop)
    ctx = mp.get_context('fork')
    jobs = max(1, min(args.jobs, n_items or 1))
    pool = ctx.Pool(jobs, initializer=_init_worker, initargs=(args.prop, getattr(mod, 'MEM_GIB', 3)))
    try:
        it = pool.imap_unordered(_work, items, chunksize=1)
        while True:
            try:
                res = it.next(timeout=max(1.0, deadline - (time.time() - t0)))
            except StopIteration:
                break
            except mp.TimeoutError:
                capped = True
                break
            done += 1
            for k in agg:
                agg[k] += res.get(k, 0)
            for k, v in res.get('counters', {}).items():
                counters[k] = counters.get(k, 0) + v
            if len(samples) < 6:
                samples.extend(res.get('samples', [])[:2])
            for v in res.get('viol', []):
                viols.append(v)
                if kf0.match(v) is None:
                    n_new += 1
            errors.extend(res.get('errors', []))
            dropped += res.get('viol_dropped', 0)
            for k_, n_ in res.get('known_dropped', {}).items():
                known_extra[k_] = known_extra.get(k_, 0) + n_
            if 'extra' in res:
                extra.append(res['extra'])
            if len(errors) > 20 or n_new + dropped > 2000:
                capped = True
                break
    finally:
        _shutdown(pool)
    fin = {}
    if hasattr(mod, 'finalize') and not errors:
        fin = mod.finalize(extra, tier, seed) or {}
        viols.extend(fin.get('viol', []))
        for k, v in fin.get('counters', {}).items():
            counters[k] = counters.get(k, 0) + v
        for k in agg:
            agg[k] += fin.get(k, 0)

    # classify violations: known findings vs new
    kf = known.Known(prop)
    new, seen_known = [], {}
    seen = set()
    for v in viols:
        v['property'] = prop
        key = util.digest([v.get('cause'), v.get('case'), v.get('kind')])
        if key in seen:
            continue
        seen.add(key)
        ent = kf.match(v)
        if ent is not None:
            seen_known.setdefault(ent['key'], [ent, 0, v])
            seen_known[ent['key']][1] += 1
        else:
            new.append(v)
    new.sort(key=lambda v: len(json.dumps(util.jsonable(v.get('case')))))
    reported = []
    by_cause = {}
    for v in new:
        by_cause.setdefault((v.get('kind'), v.get('cause')), []).append(v)
    for (kind, cause), vs in sorted(by_cause.items(), key=lambda kv: repr(kv[0])):
        if len(reported) >= args.max_report:
            break
        v = vs[0]       # smallest case of this cause
        v['confirmed_by_replay'] = confirm(mod, v)
        v['same_cause_cases'] = len(vs)
        reported.append((v, write_replay(prop, v)))

    wall = time.time() - t0
    exhaustive = (not capped) and not errors and done == n_items
    cov = {
        'evaluations': max(agg['evals'], agg['transitions']),     # executions of the real code (operations applied for history/state searches)
        'distinct_nontrivial': agg['nontrivial'],
        'rule': mod.RULE,
        'samples': util.jsonable(samples[:6]),
        'exhaustive': exhaustive,
        'work_items': n_items, 'work_items_completed': done,
        'bounds': mod.bounds(tier, seed) if hasattr(mod, 'bounds') else None,
        'counters': counters,
        'tree': tree,
        'known_findings_observed': [{'key': k, 'cases': n + known_extra.get(k, 0), 'what': e['what']} for k, (e, n, _) in sorted(seen_known.items())],
        'new_violation_cases': len(new) + dropped,
    }
    if capped:
        cov['cap_hit'] = 'deadline %.0fs or error cap reached after %d/%d work items' % (deadline, done, n_items)
    if mod.LEVEL == 'model_checking' or agg['states']:
        cov.update(states=agg['states'], transitions=agg['transitions'],
                   traces_validated_against_impl=agg['traces'])
    cov.update(fin.get('coverage', {}))
    exhaustive = bool(cov.get('exhaustive'))
    ev = {'property_id': prop, 'tier': tier, 'seed': seed, 'level': mod.LEVEL, 'coverage': cov,
          'assumptions': list(mod.ASSUMPTIONS), 'wall_s': round(wall, 2), 'violations': len(new)}
    evdir = os.path.join(util.out_dir(), 'evidence')
    os.makedirs(evdir, exist_ok=True)
    with open(os.path.join(evdir, '%s.json' % prop), 'w') as f:
        json.dump(ev, f, indent=1, sort_keys=True)

    print('%s tier=%s seed=%d items=%d/%d evaluations=%d nontrivial=%d states=%d transitions=%d wall=%.1fs exhaustive=%s'
          % (prop, tier, seed, done, n_items, agg['evals'], agg['nontrivial'], agg['states'], agg['transitions'],
             wall, exhaustive))
    for k in sorted(counters):
        print('  %-40s %d' % (k, counters[k]))
    for k, (e, n, v) in sorted(seen_known.items()):
        print('KNOWN-FINDING: property=%s %s [%d cases; key=%s]' % (prop, e['what'], n + known_extra.get(k, 0), k))
    if errors:
        for e in errors[:5]:
            print('HARNESS-ERROR: %s' % e)
        return 2
    for v, path in reported:
        print('  kind=%s cause=%s cases=%d confirmed=%s' % (v.get('kind'), v.get('cause'), v['same_cause_cases'],
                                                           v['confirmed_by_replay']))
        print('VIOLATION property=%s replay=%s' % (prop, path))
    if new:
        return 1
    if capped:
        print('NOTE: run was capped (%s); evidence says exhaustive=false' % cov['cap_hit'])
    return 0


if __name__ == '__main__':
    sys.exit(main())
