"""Shared plan/work skeleton for properties that enumerate (grammar family index ranges) x inputs."""
from . import families, util


class Counter(dict):
    def __missing__(self, k):
        return 0


def new_res():
    return {'evals': 0, 'nontrivial': 0, 'states': 0, 'transitions': 0, 'traces': 0,
            'viol': [], 'samples': [], 'counters': Counter()}


class FamRun:
    """box(name) -> dict(fam=..., alpha=..., **whatever the property needs)
    tiers: {'quick': [(box, slice_modulus, L), ...], 'thorough': [...]}
    check(g, gidx, boxname, box, inputs, res) appends to res."""

    def __init__(self, box, tiers, check, chunk=64):
        self.box, self.tiers, self.check, self.chunk = box, tiers, check, chunk

    def plan(self, tier, seed):
        items = []
        for name, k, L in self.tiers[tier]:
            fam = self.box(name)['fam']
            n = len(families.slice_indices(len(fam), k, seed))
            ch = self.box(name).get('chunk', self.chunk)
            for lo in range(0, n, ch):
                items.append((name, k, seed % k, lo, min(n, lo + ch), L))
        return items

    def bounds(self, tier, seed):
        out = []
        for n, k, L in self.tiers[tier]:
            b = self.box(n)
            out.append({'box': n, 'family_size': len(b['fam']),
                        'slice': '%d mod %d' % (seed % k, k) if k > 1 else 'complete',
                        'input_alphabet': b.get('alpha'), 'max_input_len': L,
                        'config': util.jsonable({x: y for x, y in b.items() if x not in ('fam', 'alpha', 'chunk')})})
        return out

    def work(self, item):
        name, k, r, lo, hi, L = item
        b = self.box(name)
        fam = b['fam']
        inputs = list(util.strings(b['alpha'], L)) if b.get('alpha') is not None and not b.get('no_inputs') else None
        res = new_res()
        for gi in families.slice_indices(len(fam), k, r)[lo:hi]:
            g = fam.grammar(gi)
            if g is None:
                res['counters']['skipped: non-terminal unreachable / duplicate'] += 1
                continue
            res['counters']['grammars'] += 1
            self.check(g, gi, name, b, inputs, res)
        res['counters'] = dict(res['counters'])
        return res

    def replay(self, case):
        b = self.box(case['box'])
        g = b['fam'].grammar(case['gidx'])
        res = new_res()
        self.check(g, case['gidx'], case['box'], b, [case['input']] if 'input' in case else [], res, only=case)
        return res['viol']
