"""Thin, watchdog-guarded access to the implementation under test."""
import logging

import lark
from lark import Lark
from lark.exceptions import GrammarError, UnexpectedInput

from . import util, obs

logging.getLogger('lark').setLevel(logging.CRITICAL)


def build(text, timeout=10.0, **opts):
    return util.timed(lambda: Lark(text, **opts), timeout)


def parse(p, text, timeout=10.0, **kw):
    return util.timed(lambda: p.parse(text, **kw), timeout)


def outcome(r):
    """('ok',tree)|('exc',e)|('hang',_) -> 'accept' | 'reject' (UnexpectedInput) | 'hang' | 'error:<Class>'"""
    if r[0] == 'ok':
        return 'accept'
    if r[0] == 'hang':
        return 'hang'
    if obs.is_unexpected_input(r[1]):
        return 'reject'
    return 'error:%s' % type(r[1]).__name__
