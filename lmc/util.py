"""Small shared helpers: watchdog, resource limits, stable hashing, JSON-safe conversion."""
import hashlib
import itertools
import json
import os
import resource
import signal
import sys
from contextlib import contextmanager


class Hang(BaseException):
    """Raised by the watchdog inside an evaluation.  BaseException so `except Exception` in lark can't eat it."""


def _on_alarm(signum, frame):
    raise Hang()


@contextmanager
def watchdog(seconds):
    """Budget in *CPU seconds of this process* (ITIMER_VIRTUAL), so that a loaded machine cannot turn a slow
    evaluation into a 'hang'; a wall-clock backstop (30x) catches waits that burn no CPU."""
    old_v = signal.signal(signal.SIGVTALRM, _on_alarm)
    old_r = signal.signal(signal.SIGALRM, _on_alarm)
    signal.setitimer(signal.ITIMER_VIRTUAL, seconds)
    signal.setitimer(signal.ITIMER_REAL, seconds * 30)
    try:
        yield
    finally:
        signal.setitimer(signal.ITIMER_VIRTUAL, 0)
        signal.setitimer(signal.ITIMER_REAL, 0)
        signal.signal(signal.SIGVTALRM, old_v)
        signal.signal(signal.SIGALRM, old_r)


def timed(fn, seconds=10.0):
    """Run fn() under the watchdog.  Returns ('ok', value) | ('exc', exception) | ('hang', None)."""
    try:
        with watchdog(seconds):
            return ('ok', fn())
    except Hang:
        return ('hang', None)
    except MemoryError as e:
        return ('hang', e)
    except RecursionError as e:
        return ('exc', e)
    except Exception as e:
        return ('exc', e)


def limit_memory(gib=3):
    soft = int(gib * (1 << 30))
    try:
        resource.setrlimit(resource.RLIMIT_AS, (soft, soft))
    except (ValueError, OSError):
        pass


def jsonable(x):
    """Convert tuples/sets/bytes/... to something json.dump accepts (for replay files and samples)."""
    if isinstance(x, (str, int, float, bool)) or x is None:
        return x
    if isinstance(x, bytes):
        return {'__bytes__': x.decode('latin1')}
    if isinstance(x, dict):
        return {str(k): jsonable(v) for k, v in x.items()}
    if isinstance(x, (set, frozenset)):
        return sorted((jsonable(v) for v in x), key=repr)
    if isinstance(x, (list, tuple)):
        return [jsonable(v) for v in x]
    return repr(x)


def unjson(x):
    if isinstance(x, dict):
        if set(x) == {'__bytes__'}:
            return x['__bytes__'].encode('latin1')
        return {k: unjson(v) for k, v in x.items()}
    if isinstance(x, list):
        return [unjson(v) for v in x]
    return x


def digest(x):
    return hashlib.sha256(json.dumps(jsonable(x), sort_keys=True).encode()).hexdigest()[:16]


def strings(alphabet, maxlen, minlen=0):
    """All strings over `alphabet` (a sequence of str/bytes pieces) of length minlen..maxlen, shortest first."""
    for n in range(minlen, maxlen + 1):
        for t in itertools.product(alphabet, repeat=n):
            yield ''.join(t)


def chunks(n, size):
    return [(a, min(n, a + size)) for a in range(0, n, size)]


def repo_dir():
    return os.environ.get('LMC_REPO', '/repo')


def out_dir():
    return os.environ.get('LMC_OUT', '/verif')


def scratch_dir():
    """Per-process scratch directory on tmpfs (removed by the runner at exit)."""
    import tempfile, atexit, shutil
    base = '/dev/shm' if os.path.isdir('/dev/shm') else None
    d = tempfile.mkdtemp(prefix='lmc_', dir=base)
    pid = os.getpid()

    def _rm():
        if os.getpid() == pid:
            shutil.rmtree(d, ignore_errors=True)
    atexit.register(_rm)
    return d
