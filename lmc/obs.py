"""Canonical, hashable observations of what lark returns.  Duck-typed: the stand-alone module has its own
Tree/Token classes, so isinstance tests against lark.Tree would be wrong."""

META_ATTRS = ('line', 'column', 'start_pos', 'end_line', 'end_column', 'end_pos',
              'container_line', 'container_column', 'container_start_pos',
              'container_end_line', 'container_end_column', 'container_end_pos')


def _s(v):
    if isinstance(v, bytes):
        return v.decode('latin1')
    return str(v)


def is_tree(x):
    return hasattr(x, 'data') and hasattr(x, 'children')


def is_token(x):
    return hasattr(x, 'type') and hasattr(x, 'start_pos') and isinstance(x, (str, bytes)) or \
        (hasattr(x, 'type') and hasattr(x, 'value') and hasattr(x, 'start_pos'))


def meta_of(t):
    m = getattr(t, '_meta', None)
    if m is None:
        return None
    if getattr(m, 'empty', True):
        return ('empty',)
    return tuple(getattr(m, a, None) for a in META_ATTRS)


def tok(t, pos=True):
    if pos:
        return ('tok', _s(t.type), _s(t.value), t.start_pos, t.end_pos, t.line, t.column, t.end_line, t.end_column)
    return ('tok', _s(t.type), _s(t.value))


def canon(x, pos=False, meta=False, _path=()):
    """Tree -> ('tree', label, children[, meta]); Token -> ('tok', type, value[, positions]); None -> None.
    A tree that contains itself (seen with a corrupted child list) is cut at the repetition: ('cycle', label)."""
    if x is None:
        return None
    if is_tree(x):
        if id(x) in _path or len(_path) > 200:
            return ('cycle', _s(x.data))
        _path = _path + (id(x),)
        ch = tuple(canon(c, pos, meta, _path) for c in x.children)
        if meta:
            return ('tree', _s(x.data), ch, meta_of(x))
        return ('tree', _s(x.data), ch)
    if is_token(x):
        return tok(x, pos)
    if isinstance(x, (str, bytes)):
        return ('str', _s(x))
    if isinstance(x, (list, tuple)):
        return ('seq',) + tuple(canon(c, pos, meta, _path) for c in x)
    if isinstance(x, (int, float, bool)):
        return ('val', x)
    return ('obj', repr(x))


def exc(e):
    """Canonical observation of an exception."""
    name = type(e).__name__
    d = {'class': name}
    for a in ('pos_in_stream', 'line', 'column'):
        if hasattr(e, a):
            d[a] = getattr(e, a)
    t = getattr(e, 'token', None)
    if t is not None and hasattr(t, 'type'):
        d['token'] = (_s(t.type), _s(getattr(t, 'value', t)), getattr(t, 'start_pos', None), getattr(t, 'line', None), getattr(t, 'column', None))
    for a in ('expected', 'allowed', 'accepts'):
        v = getattr(e, a, None)
        if v is not None:
            try:
                d[a] = tuple(sorted(_s(x) for x in v))
            except TypeError:
                d[a] = repr(v)
    if name not in ('UnexpectedToken', 'UnexpectedCharacters', 'UnexpectedEOF'):
        d['msg'] = str(e)[:200]
    return tuple(sorted(d.items()))


def is_unexpected_input(e):
    return any(c.__name__ == 'UnexpectedInput' for c in type(e).__mro__)


def strip_tok_types(t):
    """Forget terminal *names* of tokens (anonymous terminals are named by lark; the reference uses keys)."""
    if t is None:
        return None
    if t[0] == 'tok':
        return ('tok', t[2])
    if t[0] == 'tree':
        return ('tree', t[1], tuple(strip_tok_types(c) for c in t[2]))
    return t
