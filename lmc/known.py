"""Known findings: /verif/known_findings.json is committed and never written at run time.

An entry {"status": "known", "property": P, "key": K, "what": text} suppresses exactly the violations of P whose
`cause` string equals K.  The cause of a violation is computed by the property module from the *case* (grammar,
options, operation history, fault class) through the reference model -- never from the observed failure -- so a
different violation of the same property has a different cause and is still reported.
{"status": "fixed", ...} entries document repaired defects and suppress nothing.
"""
import json
import os


class Known:
    def __init__(self, prop):
        path = os.path.join(os.path.dirname(os.path.dirname(os.path.abspath(__file__))), 'known_findings.json')
        try:
            with open(path) as f:
                data = json.load(f)
        except FileNotFoundError:
            data = {'findings': []}
        self.entries = [e for e in data['findings'] if e['property'] == prop and e['status'] == 'known']

    def match(self, v):
        c = v.get('cause')
        for e in self.entries:
            if c is not None and c == e['key']:
                return e
        return None
