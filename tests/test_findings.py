"""Plain unit tests replaying the witnesses of every genuine defect found by the checks -- no explorer, only lark's API.

Run:  cd /verif && PYTHONPATH=/repo /venv/bin/python -m pytest -q -p no:cacheprovider tests/test_findings.py

* `test_fixed_*`  : defects repaired by a `fix:` commit in /repo; the test states the property on the witness and passes on
                    the repaired tree (it fails on the tree before the named commit).
* `test_known_*`  : defects recorded in known_findings.json; the test asserts the *defective* behaviour that is still there,
                    so it starts failing -- and the known-findings entry must be revisited -- once lark repairs it.
"""
import copy
import io
import os
import pickle
import tempfile
import threading

import pytest

from lark import Lark, Token, Tree, Transformer
from lark.exceptions import GrammarError, UnexpectedInput, UnexpectedToken
from lark.indenter import Indenter, PythonIndenter
from lark.utils import TextSlice
from lark.visitors import Transformer_InPlace


def with_alarm(seconds, fn):
    import signal

    def boom(*a):
        raise TimeoutError('did not terminate')
    old = signal.signal(signal.SIGALRM, boom)
    signal.alarm(seconds)
    try:
        return fn()
    finally:
        signal.alarm(0)
        signal.signal(signal.SIGALRM, old)


# ------------------------------------------------------------------------------------------------ repaired

def test_fixed_C05_invert_even_number_of_alternatives():            # a8bfe02
    g = 'start: a | X\na.1: X | a a\nX: "x"\n'
    t = Lark(g, parser='earley', lexer='basic', priority='invert').parse('x')
    assert t == Tree('start', [Token('X', 'x')])        # the priority-0 derivation is the minimum


def test_fixed_C02_includes_from_kernel_items_loop():               # ee43fef
    g = 'start: Y | start a\na: | start X\nX: "x"\nY: "y"\n'
    p = Lark(g, parser='lalr')
    with pytest.raises(UnexpectedInput):
        with_alarm(5, lambda: p.parse('yx'))
    assert p.parse('yyx') is not None


def test_fixed_C02_spurious_reduce_reduce():                        # ee43fef
    Lark('start: a X | X b\na: | b\nb: X a\nX: "x"\n', parser='lalr')   # used to raise GrammarError (R/R on $END)


def test_fixed_C02_digraph_aliasing_row():                          # 5e378c3
    g = 'start: start a | b b\na.1: | start X\nb.2: a\nX: "x"\n'
    p = Lark(g, parser='lalr', debug=True)
    table = p.parser.parser._parse_table
    for state, row in table.states.items():
        items = {(str(rp.rule.origin.name), rp.index) for rp in state}
        if items == {('b', 1), ('start', 2)}:
            action, rule = row['$END']
            assert str(rule.origin.name) == 'start'      # $END is not in the LALR(1) look-ahead of  b: a .
            break
    else:
        pytest.fail('state not found')


def test_fixed_C06_C15_dynamic_lexer_bytes_newline():               # b3ec5d4
    p = Lark('start: (A | N)*\nA: "a"\nN: /\\n/\n', parser='earley', lexer='dynamic', use_bytes=True)
    a = [t for t in p.parse(b'\na').children if t.type == 'A'][0]
    assert (a.line, a.column) == (2, 1)


def test_fixed_C13_fork_resume_parse_leaves_original_alone():       # f719355
    p = Lark('start: _l\n_l: _l C x | x\nx: A\nA: "a"\nC: ","\n', parser='lalr')
    ip = p.parse_interactive('a,a,a')
    fork = ip.copy()
    fork.resume_parse()
    assert ip.lexer_thread.state.line_ctr.char_pos == 0
    assert ip.resume_parse() == p.parse('a,a,a')


def test_fixed_C13_deepcopy_meta():                                 # 8abfbcd
    g = 'start: x\n?x: y _C _RP | y _C _RB _RB\ny: A\nA: "a"\n_C: ","\n_RP: ")"\n_RB: "]"\n'
    p = Lark(g, parser='lalr', propagate_positions=True)

    def tok(t, s, i):
        return Token(t, s, start_pos=i, line=1, column=i + 1, end_line=1, end_column=i + 2, end_pos=i + 1)
    ip = p.parse_interactive()
    ip.feed_token(tok('A', 'a', 0))
    ip.feed_token(tok('_C', ',', 1))
    fork = ip.copy()
    before = copy.deepcopy(fork.parser_state.value_stack[0].meta.__dict__)
    ip.feed_token(tok('_RP', ')', 2))
    ip.feed_eof()
    assert fork.parser_state.value_stack[0].meta.__dict__ == before


def test_fixed_C11_flags_after_load():                              # 4fe4ed0
    p = Lark('start: (KW | NAME)+\nKW: "ab"i\nNAME: /[a-z]+/s\n%ignore " "\n', parser='lalr', lexer='basic')
    buf = io.BytesIO()
    p.save(buf)
    q = Lark.load(io.BytesIO(buf.getvalue()))
    assert q.parse('AB ab') == p.parse('AB ab')


def test_fixed_C12_bit_flip_in_payload_is_rebuilt():                # fbab47b
    g = 'start: (A | B)+ [C]\nA: "a"\nB: "b"\nC: "c"\n'
    d = tempfile.mkdtemp()
    path = os.path.join(d, 'c')
    ref = Lark(g, parser='lalr')
    Lark(g, parser='lalr', cache=path)
    data = open(path, 'rb').read()
    wrong = 0
    for k in range(len(data) - 400, len(data) - 300):
        open(path, 'wb').write(data[:k] + bytes([data[k] ^ 0x01]) + data[k + 1:])
        p = Lark(g, parser='lalr', cache=path)
        for w in ('a', 'ab', 'abc', 'c', 'ba'):
            try:
                r = p.parse(w)
            except UnexpectedInput as e:
                r = type(e).__name__
            try:
                want = ref.parse(w)
            except UnexpectedInput as e:
                want = type(e).__name__
            wrong += r != want
    assert wrong == 0


def test_fixed_C18_newline_token_ending_in_comment():               # 88fb7f7
    p = Lark.open_from_package('lark', 'python.lark', ['grammars'], parser='lalr', postlex=PythonIndenter(), start='file_input')
    for text in ('# c', 'a = 1 # c', 'a = 1\n# c'):
        p.parse(text)


def test_fixed_C17_renamed_template_label(tmp_path):                # e4dcaa9
    (tmp_path / 'm.lark').write_text('seq{x}: x ("," x)*\n')
    p = Lark('%import m.seq -> rseq\nstart: rseq{A}\nA: "a"\n', parser='lalr', import_paths=[str(tmp_path)])
    assert p.parse('a,a').children[0].data == 'rseq'


def test_fixed_C17_override_reaches_composed_terminal(tmp_path):    # 8bd4258
    (tmp_path / 'm.lark').write_text('INT: DIGIT DIGIT\nDIGIT: "1" | "2"\n')
    p = Lark('%import m (DIGIT, INT)\nstart: (INT | DIGIT "!")+\n%override DIGIT: "q"\n', parser='lalr', import_paths=[str(tmp_path)])
    with pytest.raises(UnexpectedInput):
        p.parse('11')
    p.parse('qq')


def test_fixed_C03_ebnf_helper_cache():                             # 097e485
    p = Lark('!a: "x"+ "y"\nb: "x"+ "z"\nstart: a b\n', parser='lalr')
    a, b = p.parse('xyxxz').children
    assert [str(c) for c in a.children] == ['x', 'y'] and b.children == []
    q = Lark('b: "x"+ "z"\n!a: "x"+ "y"\nstart: a b\n', parser='lalr')
    a, b = q.parse('xyxxz').children
    assert [str(c) for c in a.children] == ['x', 'y'] and b.children == []


def test_fixed_C10_callback_publication_is_atomic():                # fbf95fe (structural: the table is published once)
    import dis
    from lark.lexer import BasicLexer
    stores = [i for i in dis.get_instructions(BasicLexer._build_scanner) if i.opname == 'STORE_ATTR' and i.argval == 'callback']
    subscr_on_self = [i for i in dis.get_instructions(BasicLexer._build_scanner) if i.opname == 'LOAD_ATTR' and i.argval == 'callback']
    assert len(stores) == 1 and not subscr_on_self       # built in a local, assigned once, never mutated through self


# ------------------------------------------------------------------------------------------------ known findings

def test_known_C01_regex_first_match_not_longest():
    p = Lark('start: | a E\na: \nP: /a+/\nE: /a|ab/\n', parser='earley', lexer='dynamic')
    with pytest.raises(UnexpectedInput):
        p.parse('ab')                                   # 'ab' is a sentence (E matches 'ab'); re's first match is 'a'


def test_known_C06_newline_heuristic_miss():
    p = Lark('start: (A | B)*\nA: "a"\nB: "b"\nN: /\\W+/\n%ignore N\n', parser='lalr', lexer='basic')
    a = p.parse('\na').children[0]
    assert (a.line, a.column) == (1, 2)                 # should be (2, 1)


def test_known_C06_collapsed_qrule_loses_filtered_edge_tokens():
    p = Lark('start: a\n?a: "z"+ X\nX: "x"\n', parser='lalr', propagate_positions=True)
    assert p.parse('zx').meta.start_pos == 1            # should be 0


def test_known_C15_empty_window_end_token_at_origin():
    p = Lark('start: A (N A)* B?\nA: "a"\nB: "b"\nN: "\\n"\n', parser='lalr')
    with pytest.raises(UnexpectedToken) as e:
        p.parse(TextSlice('a', 1, 1))
    assert e.value.token.start_pos == 0                 # should be 1


def test_known_C12_import_shadowing_not_noticed(tmp_path):
    d1, d2 = tmp_path / 'd1', tmp_path / 'd2'
    d1.mkdir()
    d2.mkdir()
    (d2 / 'm.lark').write_text('x: "a"\n')
    g = 'start: x+\n%import m.x\n'
    kw = dict(parser='lalr', import_paths=[str(d1), str(d2)], cache=str(tmp_path / 'c'))
    Lark(g, **kw)
    (d1 / 'm.lark').write_text('x: "b" "a"\n')
    p = Lark(g, **kw)
    p.parse('a')                                        # an uncached build rejects 'a' now and accepts 'ba'


def test_known_C16_inplace_embedded_undecorated():
    class T(Transformer_InPlace):
        def start(self, children):
            return ('start', tuple(children))
    g = 'start: X\nX: "x"\n'
    assert T().transform(Lark(g, parser='lalr').parse('x')) == ('start', (Token('X', 'x'),))
    with pytest.raises(TypeError):
        Lark(g, parser='lalr', transformer=T()).parse('x')


def test_fixed_C10_shared_grammar_object_invert():                  # see known_findings.json (shared Grammar object)
    from lark.load_grammar import load_grammar
    g, _ = load_grammar('start: a | b\na.2: X\nb.1: X\nX: "x"\n', '<s>', [], False)
    p1 = Lark(g, parser='earley')
    before = p1.parse('x')
    Lark(g, parser='earley', priority='invert')
    assert p1.parse('x') == before
    assert Lark(g, parser='earley').parse('x') == before


def test_fixed_C03_template_argument_shared_terminal():
    p = Lark('start: a{"k"}\na{x}: x b{x}\n!b{y}: y\n', parser='lalr')
    a, = p.parse('kk').children
    assert [getattr(c, 'data', None) for c in a.children] == ['b']      # the literal is filtered in a, kept in !b


def test_fixed_C14_scan_start_hidden_in_ignored_span():
    g = 'start: NAME "=" NUM ("/" NUM)?\nNAME: /[ab]/\nNUM: /[12]/\n%ignore /\\/\\/[^\\n]*/\n%ignore "\\n"\n'
    for lexer in ('basic', 'contextual'):
        p = Lark(g, parser='lalr', lexer=lexer)
        assert [m.range for m in p.scan('//a=1\nb=2')] == [(2, 5), (6, 9)]


def test_fixed_C19_rule_named_like_transformer_attribute():           # d0a2b8e
    from lark.reconstruct import Reconstructor
    for name in ('tokens', 'term_subs', 'transform'):
        p = Lark('start: %s\n%s: A B\nA: "a"\nB: "b"\n%%ignore " "\n' % (name, name), parser='lalr', maybe_placeholders=False)
        t = p.parse('ab')
        assert p.parse(Reconstructor(p).reconstruct(t)) == t


def test_fixed_C12_edit_terminals_not_served_from_cache(tmp_path):    # 0896624
    g = 'start: (A | B)+ [C]\nA: "a"\nB: "b"\nC: "c"\n'

    def edit(t):
        if t.name == 'C':
            t.pattern.value = 'ca'
    path = str(tmp_path / 'c')
    Lark(g, parser='lalr', cache=path)
    p = Lark(g, parser='lalr', cache=path, edit_terminals=edit)
    assert p.parse('aca') == Lark(g, parser='lalr', edit_terminals=edit).parse('aca')
    q = Lark(g, parser='lalr', cache=path)
    assert q.parse('ac') == Lark(g, parser='lalr').parse('ac')


def test_fixed_C08_keyword_terminals_in_continuation_sets():          # 48b07b4
    from lark.exceptions import UnexpectedCharacters
    g = 'start: "if" NAME | NAME "=" NAME\nNAME: /[a-z]+/\n%ignore " "\n'
    with pytest.raises(UnexpectedToken) as e:
        Lark(g, parser='lalr', lexer='contextual').parse('= a')
    assert set(e.value.accepts) <= set(e.value.expected)
    with pytest.raises(UnexpectedCharacters) as e:
        Lark(g, parser='earley', lexer='basic').parse('9')
    assert {'IF', 'NAME'} <= set(e.value.allowed)
